package main

// C14 (i) cliput: "a failure is never reported as success" at the level of the binaries.
// `desync chunk-server -w` processes started with each combination of --skip-verify-write /
// --skip-verify-read (a flag is given only when it differs from its default) receive, through
// the real RemoteHTTP client, a valid chunk, a chunk whose content does not match the id it is
// sent under (new id / id of an existing chunk), and a raw PUT of garbage.  With write
// verification on (--skip-verify-write=false) StoreChunk must report an error for the
// mismatching uploads, the store must not change and the good chunk must still be delivered.

import (
	"bytes"
	"fmt"
	"net/url"
	"os"
	"path/filepath"
	"strings"
	"time"

	"github.com/folbricht/desync"

	"vh/internal/vh"
)

func c14CLIPut(a vh.Args, o *vh.Oracle, r *vh.Result, rng *vh.Rand) error {
	if os.Getenv("VH_DESYNC") == "" {
		r.Note("VH_DESYNC not set: cliput part skipped")
		return nil
	}
	type spec struct {
		svw  bool
		svr  string
		comp bool
	}
	specs := []spec{{false, "default", true}, {false, "default", false}, {false, "false", true}, {true, "default", true}, {true, "false", false}}
	for n, sp := range specs {
		cfg := c15Cfg{Kind: "chunk", Writable: true, SkipVerifyWrite: sp.svw, Compressed: sp.comp, StoreWritable: true, Plumbing: true, SkipVerifyRead: sp.svr}
		st := c15MakeState(a.Seed)
		e, err := c15StartCLI(filepath.Join(a.Work, fmt.Sprintf("cliput%d", n)), cfg, st)
		if err != nil {
			return err
		}
		if e == nil {
			return nil
		}
		err = c14CLIPutServer(a, o, r, e, rng)
		e.stop()
		if err != nil {
			return err
		}
	}
	return nil
}

func c14CLIPutServer(a vh.Args, o *vh.Oracle, r *vh.Result, e *c15Env, rng *vh.Rand) error {
	cfg, st := e.cfg, e.state
	store := filepath.Join(e.root, "store")
	u, _ := url.Parse("http://" + e.addr + "/")
	cli, err := desync.NewRemoteHTTPStore(u, desync.StoreOptions{Uncompressed: !cfg.Compressed, ErrorRetry: 1, ErrorRetryBaseInterval: time.Millisecond, Timeout: 5 * time.Second})
	if err != nil {
		return err
	}
	good := st.chunks[2]
	goodID := c15ID(good)
	fresh := append([]byte("cliput-fresh-"), rng.Bytes(200)...)
	other := append([]byte("cliput-other-"), rng.Bytes(150)...)
	type up struct {
		name string
		id   desync.ChunkID
		data []byte
		raw  []byte // raw PUT body instead of the client
	}
	ups := []up{
		{"valid", c15ID(fresh), fresh, nil},
		{"mismatch-new-id", c15ID([]byte("an id nothing hashes to")), other, nil},
		{"mismatch-existing-id", goodID, other, nil},
		{"garbage-new-id", c15ID([]byte("another id nothing hashes to")), nil, []byte("\x28\xb5\x2f\xfd garbage that is not zstd and not the chunk")},
	}
	for _, p := range ups {
		file := c14StoreFile(store, p.id, false)
		before, berr := os.ReadFile(file)
		var got string
		if p.raw != nil {
			s := p.id.String()
			ext := ""
			if cfg.Compressed {
				ext = ".cacnk"
			}
			code, _ := c15Send(e.addr, c15Raw("PUT", "/"+s[:4]+"/"+s+ext, nil, p.raw), "PUT")
			got = "error"
			if code >= 200 && code < 300 {
				got = "ok"
			}
		} else {
			ch, cerr := desync.NewChunkWithID(p.id, p.data, true)
			if cerr != nil {
				return cerr
			}
			got = "ok"
			if err := cli.StoreChunk(ch); err != nil {
				got = "error"
			}
		}
		after, aerr := os.ReadFile(file)
		// the good chunk through the server, afterwards
		gch, gerr := cli.GetChunk(goodID)
		goodNow := c14ChunkClass(gch, gerr)
		c := &c14Case{Part: "cliput", Op: p.name, SrvComp: cfg.Compressed, Level: fmt.Sprintf("skip-verify-write=%v skip-verify-read=%s", cfg.SkipVerifyWrite, cfg.SkipVerifyRead), Got: got}
		r.Count(fmt.Sprintf("cliput|%v|%s|%v|%s", cfg.SkipVerifyWrite, cfg.SkipVerifyRead, cfg.Compressed, p.name), true)
		r.Dist("part:cliput")
		r.Dist("cliput-upload:" + p.name)
		r.Dist("cliput-result:" + got)
		r.Sample(map[string]interface{}{"part": "cliput", "flags": c.Level, "server_compressed": cfg.Compressed, "upload": p.name, "result": got})
		what := func(m string) string {
			return fmt.Sprintf("desync chunk-server -w (%s, compressed=%v), upload %s: %s; StoreChunk/PUT result %s, good chunk afterwards %s", c.Level, cfg.Compressed, p.name, m, got, c14Short(goodNow))
		}
		stored, sok := c15Decode(after, true)
		changed := (berr == nil) != (aerr == nil) || !bytes.Equal(before, after)
		switch {
		case p.name == "valid":
			if got != "ok" || aerr != nil || !sok || !bytes.Equal(stored, p.data) {
				r.Fail("predicate", "cliput/valid-put-lost", what("a valid upload was not stored"), c)
			}
		case !cfg.SkipVerifyWrite && got == "ok":
			r.Fail("predicate", "cliput/mismatch-accepted", what("an upload whose content does not hash to its id was reported as stored although write verification is on (a failure reported as success)"), c)
		case !cfg.SkipVerifyWrite && changed:
			r.Fail("predicate", "cliput/mismatch-stored", what("the store changed although the upload had to be refused"), c)
		}
		if goodNow != "data:"+vh.Hex(good) && !(cfg.SkipVerifyWrite && p.name == "mismatch-existing-id") {
			r.Fail("predicate", "cliput/good-chunk-lost", what("the good chunk is no longer delivered"), c)
		}
		if aerr == nil && !cfg.SkipVerifyWrite {
			if sum := c15ID(stored); !sok || sum != p.id {
				r.Fail("predicate", "cliput/stored-not-matching-id", what("the file under this id does not hash to it although write verification is on"), c)
			}
		}
		// model (client + server from the options)
		if o != nil && p.raw == nil {
			files := "-"
			blobs := [][]byte{p.data, c15Compress(p.data)}
			if berr == nil {
				files = p.id.String() + ":" + vh.Hex(before)
				blobs = append(blobs, before)
			}
			zt, ct := c15ZTables(blobs...)
			ans, err := o.Call("c14.remote", "put", "1", b01(!cfg.Compressed), "0", "-", "1", b01(cfg.SkipVerifyWrite), b01(cfg.Compressed), "0", b01(cfg.SkipVerifyRead != "false"),
				p.id.String(), vh.Hex(p.data), files, zt, ct)
			if err != nil {
				return err
			}
			r.Corr()
			want := "-"
			if aerr == nil {
				want = p.id.String() + ":" + vh.Hex(after)
			}
			f := strings.Split(ans, " ")
			if f[0] != got || len(f) < 3 || f[2] != want {
				r.Fail("corr", "corr:C14/cliput", fmt.Sprintf("chunk-server (%s) upload %s: model %s, implementation %s, store file equal: %v", c.Level, p.name, f[0], got, len(f) >= 3 && f[2] == want), c)
			}
		}
		// restore the base state
		if changed {
			if berr == nil {
				os.WriteFile(file, before, 0644)
			} else {
				os.Remove(file)
			}
		}
	}
	return nil
}
