package main

// C11 at the command line: `desync extract -s <loc> -s "<a>|<b>" -c <cache> [--cache-repair=false]` over local
// stores on disk (and a dead HTTP endpoint as the failing member of a failover group).  The chain is built by
// cmd/desync's own MultiStoreWithCache / multiStoreWithRouter / storeGroup.  Compared with the model of the same
// shape (C11_cli_shapes): exit status, extracted bytes, the cache directory afterwards, upstream stores untouched.

import (
	"bytes"
	"fmt"
	"io"
	"net/http"
	"net/http/httptest"
	"os"
	"os/exec"
	"path/filepath"
	"sort"
	"strconv"
	"strings"
	"sync"
	"time"

	"github.com/folbricht/desync"

	"vh/internal/vh"
)

type c11CLICase struct {
	BlobHex   string     `json:"blob_hex"`
	Sizes     []int      `json:"sizes"`
	Stores    [][]string `json:"stores"` // per -s location: members; "dead" = unreachable HTTP store, else a local store name
	Holds     [][][]int  `json:"holds"`  // per location, per member: chunk numbers it holds
	Cache     []int      `json:"cache"`  // chunk numbers in the cache; nil with NoCache
	CacheBad  []int      `json:"cache_invalid"`
	NoCache   bool       `json:"no_cache"`
	CacheKind string     `json:"cache_kind"` // "" = local directory, "http" = writable chunk server, "s3" = S3 bucket
	Repair    bool       `json:"repair"`
	Cli       string     `json:"cli,omitempty"`
	Exit      int        `json:"exit,omitempty"`
	Model     string     `json:"model,omitempty"`
}

const c11DeadStore = "http://127.0.0.1:9/store"

// c11S3 is a minimal S3 endpoint over a local chunk-store directory: bucket "bkt", object key = path below dir.
// Enough for desync's S3Store: bucket probe, GET / HEAD / PUT of objects (PUT bodies may be aws-chunked).
type c11S3 struct {
	dir string
	mu  sync.Mutex
}

func (s *c11S3) ServeHTTP(w http.ResponseWriter, r *http.Request) {
	s.mu.Lock()
	defer s.mu.Unlock()
	p := strings.TrimPrefix(r.URL.Path, "/")
	parts := strings.SplitN(p, "/", 2)
	if len(parts) < 2 || parts[1] == "" { // bucket level: exists, region
		if _, ok := r.URL.Query()["location"]; ok {
			w.Header().Set("Content-Type", "application/xml")
			io.WriteString(w, `<?xml version="1.0" encoding="UTF-8"?><LocationConstraint xmlns="http://s3.amazonaws.com/doc/2006-03-01/">us-east-1</LocationConstraint>`)
			return
		}
		w.WriteHeader(http.StatusOK)
		return
	}
	key := filepath.FromSlash(parts[1])
	if strings.Contains(key, "..") {
		http.Error(w, "bad key", http.StatusBadRequest)
		return
	}
	file := filepath.Join(s.dir, key)
	switch r.Method {
	case "GET", "HEAD":
		b, err := os.ReadFile(file)
		if err != nil {
			w.Header().Set("Content-Type", "application/xml")
			w.WriteHeader(http.StatusNotFound)
			if r.Method == "GET" {
				io.WriteString(w, `<?xml version="1.0" encoding="UTF-8"?><Error><Code>NoSuchKey</Code><Message>The specified key does not exist.</Message><Key>`+parts[1]+`</Key><BucketName>bkt</BucketName><Resource>/`+p+`</Resource><RequestId>1</RequestId><HostId>1</HostId></Error>`)
			}
			return
		}
		w.Header().Set("Content-Length", strconv.Itoa(len(b)))
		w.Header().Set("ETag", `"0"`)
		w.Header().Set("Last-Modified", "Wed, 01 Jan 2020 00:00:00 GMT")
		w.Header().Set("Content-Type", "application/octet-stream")
		if r.Method == "GET" {
			w.Write(b)
		}
	case "PUT":
		body, _ := io.ReadAll(r.Body)
		if strings.HasPrefix(r.Header.Get("X-Amz-Content-Sha256"), "STREAMING-") {
			var out []byte
			for len(body) > 0 {
				k := bytes.Index(body, []byte("\r\n"))
				if k < 0 {
					break
				}
				hdr := string(body[:k])
				if j := strings.Index(hdr, ";"); j >= 0 {
					hdr = hdr[:j]
				}
				n, err := strconv.ParseInt(hdr, 16, 64)
				if err != nil || n == 0 || k+2+int(n) > len(body) {
					break
				}
				out = append(out, body[k+2:k+2+int(n)]...)
				body = body[k+2+int(n):]
				body = bytes.TrimPrefix(body, []byte("\r\n"))
			}
			body = out
		}
		os.MkdirAll(filepath.Dir(file), 0755)
		tmp := file + ".tmp-s3"
		if err := os.WriteFile(tmp, body, 0644); err != nil {
			http.Error(w, err.Error(), http.StatusInternalServerError)
			return
		}
		os.Rename(tmp, file)
		w.Header().Set("ETag", `"0"`)
		w.WriteHeader(http.StatusOK)
	default:
		http.Error(w, "not implemented", http.StatusNotImplemented)
	}
}

func c11CLI(a vh.Args, o *vh.Oracle, r *vh.Result, rng *vh.Rand) error {
	bin := os.Getenv("VH_DESYNC")
	if bin == "" {
		r.Note("VH_DESYNC not set: CLI cases skipped")
		return nil
	}
	n := 24
	if a.Tier == "thorough" {
		n = 80
	}
	// corpus: one complete upstream store; a cache of every kind the CLI can build holding one invalid object, one
	// good object and lacking the third chunk; --cache-repair on (default) and off
	serial := 1000
	for _, kind := range []string{"", "http", "s3"} {
		for _, repair := range []bool{true, false} {
			blob := rng.Bytes(600)
			c := &c11CLICase{BlobHex: vh.Hex(blob), Sizes: []int{150, 200, 250}, Stores: [][]string{{"st0"}}, Holds: [][][]int{{{0, 1, 2}}},
				Cache: []int{0, 1}, CacheBad: []int{0}, CacheKind: kind, Repair: repair}
			if err := c11CheckCLI(a, o, r, bin, c, serial); err != nil {
				return err
			}
			serial++
		}
	}
	for k := 0; k < n; k++ {
		c := c11GenCLICase(rng)
		r.Running(c)
		if err := c11CheckCLI(a, o, r, bin, c, k); err != nil {
			return err
		}
	}
	return nil
}

func c11GenCLICase(rng *vh.Rand) *c11CLICase {
	blob := rng.Bytes(rng.Range(300, 900))
	nch := rng.Range(2, 6)
	sizes := make([]int, nch)
	left := len(blob)
	for i := 0; i < nch-1; i++ {
		sizes[i] = rng.Range(20, left/(nch-i))
		left -= sizes[i]
	}
	sizes[nch-1] = left
	c := &c11CLICase{BlobHex: vh.Hex(blob), Sizes: sizes, Repair: rng.Chance(2, 3), NoCache: rng.Chance(1, 4)}
	subset := func(p int) []int {
		out := []int{}
		for i := 0; i < nch; i++ {
			if rng.Intn(10) < p {
				out = append(out, i)
			}
		}
		return out
	}
	nloc := rng.Range(1, 3)
	name := 0
	for l := 0; l < nloc; l++ {
		var ms []string
		var hs [][]int
		nm := 1
		if rng.Chance(1, 2) {
			nm = rng.Range(2, 3)
		}
		for m := 0; m < nm; m++ {
			if nm > 1 && rng.Chance(1, 3) {
				ms = append(ms, "dead")
				hs = append(hs, []int{})
			} else {
				ms = append(ms, fmt.Sprintf("st%d", name))
				name++
				p := 7
				if rng.Chance(1, 3) || (l == 0 && rng.Chance(1, 2)) {
					p = 10
				}
				hs = append(hs, subset(p))
			}
		}
		c.Stores = append(c.Stores, ms)
		c.Holds = append(c.Holds, hs)
	}
	if !c.NoCache {
		c.CacheKind = []string{"", "", "http", "http", "s3"}[rng.Intn(5)]
		c.Cache = subset(4)
		for _, i := range c.Cache {
			if rng.Chance(1, 3) {
				c.CacheBad = append(c.CacheBad, i)
			}
		}
	}
	return c
}

func c11ListStore(dir string) []string {
	var out []string
	filepath.Walk(dir, func(p string, info os.FileInfo, err error) error {
		if err == nil && !info.IsDir() {
			out = append(out, filepath.Base(p))
		}
		return nil
	})
	sort.Strings(out)
	return out
}

func c11CheckCLI(a vh.Args, o *vh.Oracle, r *vh.Result, bin string, c *c11CLICase, serial int) error {
	desync.Digest = desync.SHA512256{}
	blob := vh.UnHex(c.BlobHex)
	idx := buildIndex(blob, c.Sizes)
	idx.Index.FeatureFlags = desync.CaFormatSHA512256
	work := filepath.Join(a.Work, fmt.Sprintf("cli%d", serial))
	if keep := os.Getenv("VH_C11_KEEP"); keep != "" { // debugging aid: keep the stores of a replayed case
		work = filepath.Join(keep, fmt.Sprintf("cli%d", serial))
	} else {
		defer os.RemoveAll(work)
	}
	os.MkdirAll(work, 0755)
	idxFile := filepath.Join(work, "blob.caibx")
	f, err := os.Create(idxFile)
	if err != nil {
		return err
	}
	if _, err := idx.WriteTo(f); err != nil {
		return err
	}
	f.Close()
	// distinct chunks, numbered in order of first appearance
	num := map[desync.ChunkID]int{}
	var chunks [][]byte
	var order []int
	for _, ic := range idx.Chunks {
		if _, ok := num[ic.ID]; !ok {
			num[ic.ID] = len(chunks)
			chunks = append(chunks, blob[ic.Start:ic.Start+ic.Size])
		}
		order = append(order, num[ic.ID])
	}
	fill := func(dir string, ids []int, bad []int) error {
		if err := os.MkdirAll(dir, 0755); err != nil {
			return err
		}
		st, err := desync.NewLocalStore(dir, desync.StoreOptions{})
		if err != nil {
			return err
		}
		isBad := map[int]bool{}
		for _, b := range bad {
			isBad[b] = true
		}
		for _, i := range ids {
			if i >= len(chunks) {
				continue
			}
			data := chunks[i]
			if isBad[i] {
				data = append([]byte("corrupted object "), data...)
			}
			ch, _ := desync.NewChunkWithID(desync.Digest.Sum(chunks[i]), data, true)
			if err := st.StoreChunk(ch); err != nil {
				return err
			}
		}
		return nil
	}
	// model members: upstream members first, the cache last
	var members []string
	var args []string
	var locShapes []string
	var upstreamDirs []string
	ngroups := 0
	memberSpec := func(ids []int, bad []int, dflt string) string {
		isBad := map[int]bool{}
		for _, b := range bad {
			isBad[b] = true
		}
		var es []string
		for _, i := range ids {
			if i >= len(chunks) {
				continue
			}
			v := 1
			if isBad[i] {
				v = 0
			}
			es = append(es, fmt.Sprintf("%d:%d:%d", i, i, v))
		}
		return joinOr(es, ",") + "/_/" + dflt
	}
	for l, ms := range c.Stores {
		var locs, leaves []string
		for m, name := range ms {
			if name == "dead" {
				locs = append(locs, c11DeadStore)
				members = append(members, "_/_/e")
			} else {
				dir := filepath.Join(work, name)
				if err := fill(dir, c.Holds[l][m], nil); err != nil {
					return err
				}
				upstreamDirs = append(upstreamDirs, dir)
				locs = append(locs, dir)
				members = append(members, memberSpec(c.Holds[l][m], nil, "n"))
			}
			leaves = append(leaves, fmt.Sprintf("L%d", len(members)-1))
		}
		args = append(args, "-s", strings.Join(locs, "|"))
		if len(ms) == 1 {
			locShapes = append(locShapes, leaves[0])
		} else {
			locShapes = append(locShapes, fmt.Sprintf("F%d[%s]", ngroups, strings.Join(leaves, ",")))
			ngroups++
		}
	}
	shape := "R[" + strings.Join(locShapes, ",") + "]"
	cacheDir := filepath.Join(work, "cache")
	cacheIdx := -1
	if !c.NoCache {
		if err := fill(cacheDir, c.Cache, c.CacheBad); err != nil {
			return err
		}
		members = append(members, memberSpec(c.Cache, c.CacheBad, "n"))
		cacheIdx = len(members) - 1
		cacheLoc := cacheDir
		switch c.CacheKind {
		case "http":
			// a writable chunk server over the cache directory; it serves objects as they are (no verification
			// on the server side), so an invalid object reaches the client, which is where the CLI's cache sits
			st, err := desync.NewLocalStore(cacheDir, desync.StoreOptions{SkipVerify: true})
			if err != nil {
				return err
			}
			srv := httptest.NewServer(desync.NewHTTPHandler(st, true, false, desync.Converters{desync.Compressor{}}, ""))
			defer srv.Close()
			cacheLoc = srv.URL + "/"
		case "s3":
			srv := httptest.NewServer(&c11S3{dir: cacheDir})
			defer srv.Close()
			cacheLoc = "s3+" + srv.URL + "/bkt"
		}
		args = append(args, "-c", cacheLoc)
		if c.Repair {
			shape = fmt.Sprintf("C[%s,P[L%d]]", shape, cacheIdx)
		} else {
			shape = fmt.Sprintf("C[%s,L%d]", shape, cacheIdx)
			args = append(args, "--cache-repair=false")
		}
	}
	before := map[string][]string{}
	for _, d := range upstreamDirs {
		before[d] = c11ListStore(d)
	}
	out := filepath.Join(work, "out")
	args = append([]string{"extract", "-n", "1", "-e", "0"}, append(args, idxFile, out)...)
	cmd := exec.Command(bin, args...)
	cmd.Env = append(os.Environ(), "HOME="+work, "S3_ACCESS_KEY=key", "S3_SECRET_KEY=secret", "S3_REGION=us-east-1")
	var stderr bytes.Buffer
	cmd.Stderr = &stderr
	done := make(chan error, 1)
	go func() { done <- cmd.Run() }()
	var runErr error
	select {
	case runErr = <-done:
	case <-time.After(60 * time.Second):
		cmd.Process.Kill()
		<-done
		r.Fail("predicate", "cli/hang", "desync extract did not finish within 60 s: "+strings.Join(args, " "), c)
		return nil
	}
	ok := runErr == nil
	c.Exit = 0
	c.Cli = "desync " + strings.Join(args, " ")
	if !ok {
		c.Exit = 1
	}
	// model: one GetChunk per distinct chunk, in index order
	var ops []string
	seen := map[int]bool{}
	for _, i := range order {
		if !seen[i] {
			seen[i] = true
			ops = append(ops, "g"+strconv.Itoa(i))
		}
	}
	key := fmt.Sprintf("cli|%s|%v|%v|%v", shape, c.Holds, c.Cache, c.CacheBad)
	r.Count(key, len(members) >= 2)
	r.Dist("cli:" + c11Kinds("N="+shape))
	r.Dist(fmt.Sprintf("cli-exit-ok:%v", ok))
	if !c.NoCache {
		r.Dist("cli-cache-kind:" + map[string]string{"": "local", "http": "http", "s3": "s3"}[c.CacheKind])
	}
	if strings.Contains(c.Cli, c11DeadStore) {
		r.Dist("cli-with-dead-member")
	}
	if len(c.CacheBad) > 0 {
		r.Dist(fmt.Sprintf("cli-invalid-cached-chunks:repair=%v", c.Repair))
	}
	// predicate, independent of the model: success means the blob was reproduced; upstream stores are never written
	if ok {
		got, _ := os.ReadFile(out)
		if !bytes.Equal(got, blob) {
			r.Fail("predicate", "cli/extract-wrong-bytes", "desync extract succeeded but the output differs from the blob: "+c.Cli, c)
		}
	}
	for _, d := range upstreamDirs {
		if fmt.Sprint(before[d]) != fmt.Sprint(c11ListStore(d)) {
			r.Fail("predicate", "cli/upstream-store-modified", "an upstream store was written to: "+d, c)
		}
	}
	// documented policy, no model involved: when every member of the first location either is unreachable or holds
	// every chunk (and one does), the router/failover chain delivers; invalid cached objects are repaired unless
	// repair is switched off
	full, live := true, 0
	for m, name := range c.Stores[0] {
		if name == "dead" {
			continue
		}
		have := map[int]bool{}
		for _, i := range c.Holds[0][m] {
			have[i] = true
		}
		for i := range chunks {
			if !have[i] {
				full = false
			}
		}
		live++
	}
	cacheFine := c.NoCache || c.Repair || len(c.CacheBad) == 0
	if full && live > 0 && cacheFine && !ok {
		class := "cli/extract-fails-with-complete-first-location"
		if len(c.CacheBad) > 0 && c.Repair {
			// --cache-repair is on: an invalid cached object has to be replaced from upstream, for every kind of cache
			class = "cli/invalid-cached-chunk-not-repaired"
		}
		r.Fail("predicate", class, "every reachable member of the first store location holds every chunk, yet extract failed: "+c.Cli+": "+strings.TrimSpace(stderr.String()), c)
	}
	if ok && !c.NoCache {
		st, _ := desync.NewLocalStore(cacheDir, desync.StoreOptions{})
		for i := range chunks {
			if _, err := st.GetChunk(desync.ChunkID(desync.Digest.Sum(chunks[i]))); err != nil {
				r.Fail("predicate", "cli/cache-not-filled", fmt.Sprintf("after a successful extract through a cache, chunk %d is not a valid object of the cache: %v (%s)", i, err, c.Cli), c)
			}
		}
	}
	if o == nil {
		return nil
	}
	ans, err := o.Call("c11.run", joinOr(members, ";"), strconv.Itoa(ngroups), "N="+shape, joinOr(ops, "+"))
	if err != nil {
		return err
	}
	p := strings.SplitN(ans, "|", 3)
	if len(p) != 3 {
		return fmt.Errorf("bad oracle answer %q", ans)
	}
	c.Model = p[0]
	r.Corr()
	modelOK := true
	for _, res := range strings.Split(p[0], "+") {
		if !strings.HasSuffix(res, ":n") {
			modelOK = false
		}
	}
	if modelOK != ok {
		r.Fail("corr", "corr:C11/cli-exit", fmt.Sprintf("model predicts success=%v (%s), %s exited with success=%v: %s", modelOK, p[0], c.Cli, ok, strings.TrimSpace(stderr.String())), c)
		return nil
	}
	if cacheIdx >= 0 && ok {
		// the cache afterwards: exactly the model's valid objects (a failed run stops at the first failing chunk in both)
		finals := strings.Split(p[2], ";")
		want := map[string]bool{}
		if finals[cacheIdx] != "_" {
			for _, e := range strings.Split(finals[cacheIdx], ",") {
				if strings.HasSuffix(e, "!") {
					r.Fail("corr", "corr:C11/cli-cache", "model leaves an invalid object in the cache after a successful run: "+e, c)
					continue
				}
				i, _ := strconv.Atoi(e[:strings.Index(e, ":")])
				id := desync.ChunkID(desync.Digest.Sum(chunks[i]))
				want[id.String()+".cacnk"] = true
			}
		}
		have := c11ListStore(cacheDir)
		same := len(have) == len(want)
		for _, h := range have {
			if !want[h] {
				same = false
			}
		}
		if !same {
			r.Fail("corr", "corr:C11/cli-cache", fmt.Sprintf("cache directory after the run holds %d objects, the model %d (%s): %s", len(have), len(want), finals[cacheIdx], c.Cli), c)
		}
		// and every cached object is valid now (repair / fill)
		st, _ := desync.NewLocalStore(cacheDir, desync.StoreOptions{})
		for i := range chunks {
			id := desync.ChunkID(desync.Digest.Sum(chunks[i]))
			if want[id.String()+".cacnk"] {
				if _, err := st.GetChunk(id); err != nil {
					r.Fail("predicate", "cli/cache-holds-invalid-chunk", fmt.Sprintf("after a successful extract the cache object of chunk %d does not verify: %v", i, err), c)
				}
			}
		}
	}
	return nil
}
