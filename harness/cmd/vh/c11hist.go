package main

// C11, construction histories: a StoreRouter / FailoverGroup behaves as the member list it was CONSTRUCTED with,
// whatever the caller does to its own slice afterwards.
//
// In the model a chain is a value (Router l owns l; Gallina has no aliasing), so "the router's members are the
// list given to NewStoreRouter" is what the constructor has to provide; Go's variadic call NewStoreRouter(list...)
// hands the constructor the caller's backing array, and only a copy makes the two independent.  This file checks
// that on the implementation:
//   a case is a script over one caller-owned slice `list` (created with spare capacity) and a pool of healthy member
//   stores:  new:<cap> | app:<m> | set:<j>:<m> | trunc:<n> | build:<R|F> (constructor(list...)) |
//            buildx:<R|F>:<m> (constructor(append(list, m)...)) | get:<r>:<id> | has:<r>:<id> |
//            fly:<r>:<id> (start GetChunk on chain r in a goroutine and hold it inside the first member it calls) |
//            land (let the in-flight request continue and collect it)
//   predicate (implementation alone): every query on chain r calls exactly the members, and returns exactly the
//   answer, that the documented policy gives for the member list recorded when r was constructed
//   (classes router|failover/members-changed-after-construction, .../members-changed-under-in-flight-request);
//   correspondence: the model of Router/Failover over the recorded list predicts result and member calls.

import (
	"fmt"
	"strconv"
	"strings"
	"time"

	"github.com/folbricht/desync"

	"vh/internal/vh"
)

type c11HistCase struct {
	Hist     []string `json:"hist"`
	Members  []string `json:"members"`
	Observed []string `json:"observed,omitempty"`
}

type c11HistChain struct {
	kind    byte
	store   desync.Store
	members []int // as constructed
}

// c11HistExpect: documented policy over healthy members holding only valid objects.
func c11HistExpect(w *c11World, ch *c11HistChain, op byte, id int) (res string, calls []int) {
	list := ch.members
	if ch.kind == 'F' && len(list) > 0 {
		list = list[:1] // healthy members never fail: the group stays on its first member
	}
	for _, k := range list {
		calls = append(calls, k)
		if o, ok := w.members[k].content[id]; ok {
			if op == 'g' {
				return fmt.Sprintf("G%d:n", o.Tag), calls
			}
			return "H1:n", calls
		}
		if ch.kind == 'F' {
			break
		}
	}
	if op == 'g' {
		return "G_:m", calls
	}
	return "H0:n", calls
}

func c11HistQuery(s desync.Store, op byte, id int) (res string) {
	defer func() {
		if p := recover(); p != nil {
			res = fmt.Sprintf("PANIC(%v)", p)
		}
	}()
	if op == 'g' {
		c, e := s.GetChunk(c11ID(id))
		t := "_"
		if c != nil {
			t = strconv.Itoa(c11Tag(c))
		}
		return "G" + t + ":" + c11Class(e)
	}
	b, e := s.HasChunk(c11ID(id))
	if b {
		return "H1:" + c11Class(e)
	}
	return "H0:" + c11Class(e)
}

func c11LogMembers(entries []string) []int {
	var out []int
	for _, e := range entries {
		k := 0
		for k < len(e) && e[k] >= '0' && e[k] <= '9' {
			k++
		}
		m, _ := strconv.Atoi(e[:k])
		out = append(out, m)
	}
	return out
}

func c11ShapeOf(ch *c11HistChain) string {
	var ls []string
	for _, k := range ch.members {
		ls = append(ls, fmt.Sprintf("L%d", k))
	}
	if ch.kind == 'F' {
		return "F0[" + strings.Join(ls, ",") + "]"
	}
	return "R[" + strings.Join(ls, ",") + "]"
}

// c11CheckHist runs one script; returns the predicate/correspondence failures.
func c11CheckHist(o *vh.Oracle, r *vh.Result, c *c11HistCase, record bool) (bad bool, err error) {
	w, err := c11NewWorld(c.Members)
	if err != nil {
		return false, err
	}
	c.Observed = nil
	var list []desync.Store
	var listIdx []int
	var chains []*c11HistChain
	type flight struct {
		ch      *c11HistChain
		id      int
		gid     string
		held    bool
		entered chan struct{}
		gate    chan struct{}
		done    chan string
		logFrom int
	}
	var fl *flight
	w.onCall = func(m *c11Member, op byte, id int) {
		f := fl
		if f == nil || op == 'x' || f.held || c12GoroutineID() != f.gid {
			return
		}
		// first member call of the in-flight request: hold it here until "land"
		f.held = true
		f.entered <- struct{}{}
		<-f.gate
	}
	fail := func(class, what string) {
		bad = true
		if record {
			r.Fail("predicate", class, what+" (construction history "+strings.Join(c.Hist, " ")+")", c)
		}
	}
	judge := func(ch *c11HistChain, ci int, op byte, id int, res string, calls []int, inflight bool) error {
		wantRes, wantCalls := c11HistExpect(w, ch, op, id)
		how := ""
		if inflight {
			how = " (request in flight while the caller's slice was edited)"
		}
		c.Observed = append(c.Observed, fmt.Sprintf("chain %d %s constructed with %v: %c%d -> %s calls %v%s", ci, string(ch.kind), ch.members, op, id, res, calls, how))
		if res != wantRes || fmt.Sprint(calls) != fmt.Sprint(wantCalls) {
			class := "router/members-changed-after-construction"
			name := "StoreRouter"
			if ch.kind == 'F' {
				class, name = "failover/members-changed-after-construction", "FailoverGroup"
			}
			if inflight && ch.kind == 'R' { // the FailoverGroup aliasing is one (known) defect whichever way it shows
				class = strings.Replace(class, "after-construction", "under-in-flight-request", 1)
			}
			fail(class, fmt.Sprintf("%s constructed with members %v answered %c%d with %s after calling members %v; its own members give %s by calling %v%s", name, ch.members, op, id, res, calls, wantRes, wantCalls, how))
			// the model predicts the same as the policy here; the disagreement is already reported as a predicate failure
			return nil
		}
		if o != nil && len(ch.members) > 0 || o != nil && ch.kind == 'R' {
			ans, oerr := o.Call("c11.run", joinOr(c.Members, ";"), "1", "N="+c11ShapeOf(ch), fmt.Sprintf("%c%d", op, id))
			if oerr != nil {
				return oerr
			}
			p := strings.SplitN(ans, "|", 3)
			if len(p) != 3 {
				return fmt.Errorf("bad oracle answer %q", ans)
			}
			if r != nil {
				r.Corr()
			}
			var mcalls []int
			if p[1] != "_" {
				mcalls = c11LogMembers(strings.Split(p[1], ","))
			}
			if p[0] != res || fmt.Sprint(mcalls) != fmt.Sprint(calls) {
				bad = true
				if record {
					r.Fail("corr", "corr:C11/construction-history", fmt.Sprintf("model of %s: %s calling %v; implementation: %s calling %v (history %s)", c11ShapeOf(ch), p[0], mcalls, res, calls, strings.Join(c.Hist, " ")), c)
				}
			}
		}
		return nil
	}
	for _, st := range c.Hist {
		f := strings.Split(st, ":")
		arg := func(i int) int { n, _ := strconv.Atoi(f[i]); return n }
		switch f[0] {
		case "new":
			list, listIdx = make([]desync.Store, 0, arg(1)), make([]int, 0, arg(1))
		case "app":
			list, listIdx = append(list, w.members[arg(1)]), append(listIdx, arg(1))
		case "set":
			if arg(1) < len(list) {
				list[arg(1)], listIdx[arg(1)] = w.members[arg(2)], arg(2)
			}
		case "trunc":
			if arg(1) <= len(list) {
				list, listIdx = list[:arg(1)], listIdx[:arg(1)]
			}
		case "build", "buildx":
			src, idx := list, listIdx
			if f[0] == "buildx" {
				// append to the caller's slice: with spare capacity this writes into the shared backing array
				src, idx = append(list, w.members[arg(2)]), append(listIdx, arg(2))
			}
			ch := &c11HistChain{kind: f[1][0], members: append([]int{}, idx...)}
			if ch.kind == 'F' {
				if len(src) == 0 {
					continue
				}
				ch.store = desync.NewFailoverGroup(src...)
			} else {
				ch.store = desync.NewStoreRouter(src...)
			}
			chains = append(chains, ch)
		case "get", "has":
			if arg(1) >= len(chains) {
				continue
			}
			ch := chains[arg(1)]
			from := len(w.log)
			res := c11HistQuery(ch.store, f[0][0], arg(2))
			w.mu.Lock()
			calls := c11LogMembers(w.log[from:])
			w.mu.Unlock()
			if err := judge(ch, arg(1), f[0][0], arg(2), res, calls, false); err != nil {
				return bad, err
			}
		case "fly":
			if arg(1) >= len(chains) || fl != nil {
				continue
			}
			ch := chains[arg(1)]
			nf := &flight{ch: ch, id: arg(2), entered: make(chan struct{}, 1), gate: make(chan struct{}), done: make(chan string, 1), logFrom: len(w.log)}
			fl = nf
			started := make(chan struct{})
			go func() {
				nf.gid = c12GoroutineID()
				close(started)
				nf.done <- c11HistQuery(ch.store, 'g', nf.id)
			}()
			<-started
			// the request now runs until it sits in the first member it calls (or returns without calling any)
			select {
			case <-nf.entered:
			case res := <-nf.done:
				nf.done <- res
			case <-time.After(5 * time.Second):
				fail("router/in-flight-request-hangs", "the in-flight request neither reached a member nor returned")
			}
		case "land":
			if fl == nil {
				continue
			}
			nf := fl
			close(nf.gate)
			var res string
			select {
			case res = <-nf.done:
			case <-time.After(5 * time.Second):
				fail("router/in-flight-request-hangs", "the in-flight request did not return")
				fl = nil
				continue
			}
			fl = nil
			w.mu.Lock()
			calls := c11LogMembers(w.log[nf.logFrom:])
			w.mu.Unlock()
			ci := 0
			for k, ch := range chains {
				if ch == nf.ch {
					ci = k
				}
			}
			if err := judge(nf.ch, ci, 'g', nf.id, res, calls, true); err != nil {
				return bad, err
			}
		}
	}
	if fl != nil { // never leave a goroutine parked
		close(fl.gate)
		select {
		case <-fl.done:
		case <-time.After(time.Second):
		}
	}
	return bad, nil
}

func c11GenHist(rng *vh.Rand) *c11HistCase {
	const nm = 7
	c := &c11HistCase{}
	for k := 0; k < nm; k++ {
		var content []string
		for i := 0; i < 4; i++ {
			if rng.Chance(2, 5) {
				content = append(content, fmt.Sprintf("%d:%d:1", i, k*10+i))
			}
		}
		c.Members = append(c.Members, joinOr(content, ",")+"/_/n")
	}
	kind := func() string {
		if rng.Chance(1, 4) {
			return "F"
		}
		return "R"
	}
	m := func() int { return rng.Intn(nm) }
	queries := func(nch int) {
		for q := rng.Range(1, 3); q > 0 && nch > 0; q-- {
			op := "get"
			if rng.Chance(1, 3) {
				op = "has"
			}
			c.Hist = append(c.Hist, fmt.Sprintf("%s:%d:%d", op, rng.Intn(nch), rng.Intn(4)))
		}
	}
	c.Hist = append(c.Hist, fmt.Sprintf("new:%d", []int{0, 1, 2, 4, 8}[rng.Intn(5)]))
	n := 0
	for p := rng.Range(0, 3); p > 0; p-- {
		c.Hist = append(c.Hist, fmt.Sprintf("app:%d", m()))
		n++
	}
	nch := 0
	for steps := rng.Range(3, 9); steps > 0; steps-- {
		switch rng.Intn(8) {
		case 0, 1:
			c.Hist = append(c.Hist, "build:"+kind())
			nch++
		case 2, 3:
			c.Hist = append(c.Hist, fmt.Sprintf("buildx:%s:%d", kind(), m()))
			nch++
		case 4:
			if n > 0 {
				c.Hist = append(c.Hist, fmt.Sprintf("set:%d:%d", rng.Intn(n), m()))
			}
		case 5:
			c.Hist = append(c.Hist, fmt.Sprintf("app:%d", m()))
			n++
		case 6:
			if n > 0 && rng.Chance(1, 2) {
				n = rng.Intn(n + 1)
				c.Hist = append(c.Hist, fmt.Sprintf("trunc:%d", n))
			}
		case 7:
			// a request in flight in an existing chain while the caller reconfigures
			if nch > 0 {
				c.Hist = append(c.Hist, fmt.Sprintf("fly:%d:%d", rng.Intn(nch), rng.Intn(4)))
				for e := rng.Range(1, 3); e > 0; e-- {
					if n > 0 && rng.Chance(2, 3) {
						c.Hist = append(c.Hist, fmt.Sprintf("set:%d:%d", rng.Intn(n), m()))
					} else {
						c.Hist = append(c.Hist, fmt.Sprintf("buildx:%s:%d", kind(), m()))
						nch++
					}
				}
				c.Hist = append(c.Hist, "land")
			}
		}
		queries(nch)
	}
	return c
}

// c11HistCorpus: the two minimal histories that expose a router aliasing its caller's slice; always run first.
func c11HistCorpus() []*c11HistCase {
	members := []string{"_/_/n", "0:10:1/_/n", "1:21:1/_/n", "_/_/n"}
	return []*c11HistCase{
		// two routers from a shared prefix with spare capacity: router 0 = (0,1) must not become (0,2)
		{Members: members, Hist: []string{"new:4", "app:0", "buildx:R:1", "buildx:R:2", "get:0:0", "has:0:0", "get:0:1", "get:1:1", "get:1:0"}},
		// reconfiguration in place while a request sits in member 0 of the old router (0,1): it must go on to member 1
		{Members: members, Hist: []string{"new:2", "app:0", "app:1", "build:R", "fly:0:0", "set:1:3", "build:R", "land", "get:1:0", "get:0:0"}},
	}
}

func c11History(a vh.Args, o *vh.Oracle, r *vh.Result, rng *vh.Rand) error {
	for _, c := range c11HistCorpus() {
		if _, err := c11CheckHist(o, r, c, true); err != nil {
			return err
		}
		r.Count("hist-corpus|"+strings.Join(c.Hist, " "), true)
		r.Dist("hist:corpus")
	}
	n := 600
	if a.Tier == "thorough" {
		n = 12000
	}
	for k := 0; k < n; k++ {
		c := c11GenHist(rng)
		r.Running(c)
		bad, err := c11CheckHist(o, r, c, false)
		if err != nil {
			return err
		}
		if bad {
			// shrink: drop steps while the case keeps failing
			for pass := 0; pass < 3; pass++ {
				for j := len(c.Hist) - 1; j >= 0; j-- {
					t := &c11HistCase{Members: c.Members, Hist: append(append([]string{}, c.Hist[:j]...), c.Hist[j+1:]...)}
					if b, e := c11CheckHist(o, nil, t, false); e == nil && b {
						c = t
					}
				}
			}
			if _, err := c11CheckHist(o, r, c, true); err != nil {
				return err
			}
		}
		builds, edits := 0, 0
		for _, s := range c.Hist {
			if strings.HasPrefix(s, "build") {
				builds++
			}
			if strings.HasPrefix(s, "set") || strings.HasPrefix(s, "app") || strings.HasPrefix(s, "buildx") {
				edits++
			}
			r.Dist("hist:" + strings.SplitN(s, ":", 2)[0])
		}
		r.Count("hist|"+strings.Join(c.Hist, " ")+"|"+strings.Join(c.Members, ";"), builds >= 1 && edits >= 1)
		if k < 1 {
			r.Sample(map[string]interface{}{"construction_history": c.Hist, "observed": c.Observed})
		}
	}
	return nil
}
