package main

// C19, raw PUTs to the HTTP index handler: the request is written onto a TCP connection by hand so that
// the Content-Length it ANNOUNCES is independent of the bytes it sends (exact, +1, 64 KiB, 64 MiB, 2^31,
// 2^62, 2^63-1, or chunked encoding with no length), then the sending side is closed.  Runs in the
// memory-limited child like the other decoders.  Predicate: the handler does not panic (net/http would
// turn that into a dropped connection: the server's error log is watched, and a second request on a
// fresh connection has to be answered), the request is answered, allocation stays in proportion to the
// bytes SENT, and a body that is not a complete index gets an error status.

import (
	"bufio"
	"bytes"
	"fmt"
	"io"
	"log"
	"net"
	"net/http"
	"net/http/httptest"
	"os"
	"path/filepath"
	"strings"
	"time"

	"github.com/folbricht/desync"

	"vh/internal/vh"
)

func c19RunRawPut(c *c19Case, in []byte, out *c19Out, m *c19Meter) {
	c04SetDigest(c.Digest)
	dir, err := os.MkdirTemp("", "c19rawput")
	if err != nil {
		out.Status, out.Err = "err", err.Error()
		return
	}
	defer os.RemoveAll(dir)
	store, _ := desync.NewLocalIndexStore(dir)
	var errlog c19LockedBuffer
	srv := httptest.NewUnstartedServer(desync.NewHTTPIndexHandler(store, true, ""))
	srv.Config.ErrorLog = log.New(&errlog, "", 0)
	srv.Start()
	defer srv.Close()
	var req bytes.Buffer
	req.WriteString("PUT /x.caibx HTTP/1.1\r\nHost: index\r\n")
	switch c.Declared {
	case "chunked":
		req.WriteString("Transfer-Encoding: chunked\r\n\r\n")
		if len(in) > 0 {
			fmt.Fprintf(&req, "%x\r\n", len(in))
			req.Write(in)
			req.WriteString("\r\n")
		}
		req.WriteString("0\r\n\r\n")
	default:
		fmt.Fprintf(&req, "Content-Length: %s\r\n\r\n", c.Declared)
		req.Write(in)
	}
	status, answered := 0, false
	m.measure(func() {
		conn, err := net.Dial("tcp", srv.Listener.Addr().String())
		if err != nil {
			out.Err = err.Error()
			return
		}
		defer conn.Close()
		conn.Write(req.Bytes())
		if tc, ok := conn.(*net.TCPConn); ok {
			tc.CloseWrite()
		}
		conn.SetReadDeadline(time.Now().Add(10 * time.Second))
		resp, err := http.ReadResponse(bufio.NewReader(conn), nil)
		if err != nil {
			out.Err = "no response: " + err.Error()
			return
		}
		io.Copy(io.Discard, resp.Body)
		resp.Body.Close()
		status, answered = resp.StatusCode, true
	})
	// is the server still there?
	alive := false
	if resp, err := http.Get(srv.URL + "/not-there.caibx"); err == nil {
		io.Copy(io.Discard, resp.Body)
		resp.Body.Close()
		alive = true
	}
	logged := errlog.String()
	switch {
	case strings.Contains(logged, "panic serving"):
		line := logged[strings.Index(logged, "panic serving"):]
		out.Status = "crash:panic: in the index handler: " + strings.SplitN(strings.SplitN(line, "\n", 2)[0], ": ", 2)[1]
	case !alive:
		out.Status = "crash:died: the index server does not answer a second request"
	case !answered:
		out.Status = "crash:died: the PUT got no answer (" + out.Err + ")"
	case status == http.StatusOK:
		out.Status = "end"
		if b, err := os.ReadFile(filepath.Join(dir, "x.caibx")); err == nil {
			if idx, err := desync.IndexFromReader(bytes.NewReader(b)); err == nil {
				out.Items = append(out.Items, c04IndexString(idx))
			}
		}
	default:
		out.Status, out.Err = "err", fmt.Sprint(status)
	}
}

func (w *c19LockedBuffer) String() string {
	w.mu.Lock()
	defer w.mu.Unlock()
	return w.b.String()
}

func c19RawPutCases(rng *vh.Rand, cases *[]*c19Case) {
	bodies := []struct {
		name string
		b    []byte
	}{
		{"empty", nil},
		{"header-only", le64(48, desync.CaFormatIndex)},
	}
	for _, digest := range []string{"sha256", "sha512-256"} {
		bodies = append(bodies, struct {
			name string
			b    []byte
		}{"valid-index-" + digest, c19ValidIndex(rng, digest)})
	}
	for _, body := range bodies {
		exact := len(body.b)
		for _, decl := range []string{fmt.Sprint(exact), fmt.Sprint(exact + 1), "65536", fmt.Sprint(64 << 20), fmt.Sprint(uint64(1) << 31),
			fmt.Sprint(uint64(1) << 62), fmt.Sprint(uint64(1)<<63 - 1), "chunked"} {
			digest := "sha256"
			if strings.HasSuffix(body.name, "sha512-256") || body.name == "empty" {
				digest = "sha512-256"
			}
			*cases = append(*cases, &c19Case{Decoder: "rawput", Digest: digest, Declared: decl, InputHex: vh.Hex(body.b),
				Gen: fmt.Sprintf("raw-put@body=%s(%d bytes),content-length=%s", body.name, exact, decl)})
		}
	}
}
