package main

import (
	"encoding/hex"
	"fmt"
	"os"
	"sort"
	"strings"
	"sync"

	"github.com/folbricht/desync"

	"vh/internal/vh"
)

// Trace validation of AssembleFile against Model/Assemble.v.  The verif build of assemble.go
// reports the events of the worker goroutines: job start, "seed segment written" (the recorder
// reads the bytes now in the job's range), chunk re-hash passed, in-place hit, chunk written from
// the store (bytes read back), chunk copied from the self seed (source offset), segment added to
// the self seed (bracketed, so that it is ordered before any self-seed copy that uses it).
// The parent replays them with the extracted Assemble.step (oracle command c01.atrace): every
// event must be ENABLED in the model -- its guard (confinement to the job's rows, digest of the
// model's file slice equals the row's id, source of a self copy finished, ...) must hold -- and at
// the end all jobs must be finished with the model's file equal to the blob.

type c01Ev struct {
	ev      string
	a, b, c uint64
	gid     int64
	data    []byte
}

type c01Recorder struct {
	mu      sync.Mutex
	target  string
	f       *os.File
	evs     []c01Ev
	stopped bool
}

func c01StartRecorder(target string) *c01Recorder {
	rec := &c01Recorder{target: target}
	read := func(off, n uint64) []byte {
		if rec.f == nil {
			f, err := os.Open(rec.target)
			if err != nil {
				return nil
			}
			rec.f = f
		}
		b := make([]byte, n)
		if _, err := rec.f.ReadAt(b, int64(off)); err != nil && n > 0 {
			return nil
		}
		return b
	}
	desync.VerifTraceBegin = func() { rec.mu.Lock() }
	desync.VerifTraceEnd = func(begun bool, ev string, x, y, z uint64) {
		if !begun {
			rec.mu.Lock()
		}
		defer rec.mu.Unlock()
		if !strings.HasPrefix(ev, "a.") {
			return
		}
		e := c01Ev{ev: ev, a: x, b: y, c: z, gid: vh.Goid()}
		if ev == "a.write" || ev == "a.store" {
			e.data = read(x, y)
		}
		rec.evs = append(rec.evs, e)
	}
	return rec
}

func (rec *c01Recorder) stop() {
	if rec.stopped {
		return
	}
	rec.stopped = true
	desync.VerifTraceBegin, desync.VerifTraceEnd = nil, nil
	if rec.f != nil {
		rec.f.Close()
	}
}

func hexOrDash(b []byte) string {
	if len(b) == 0 {
		return "-"
	}
	return hex.EncodeToString(b)
}

// args builds the four arguments of c01.atrace: index rows, plan, initial file, events.
func (rec *c01Recorder) args(idx desync.Index, prior []byte, priorKind string) []string {
	rowOf := map[uint64]int{}
	var rows []string
	for i, c := range idx.Chunks {
		rowOf[c.Start] = i
		rows = append(rows, fmt.Sprintf("%s:%d", hex.EncodeToString(c.ID[:]), c.Size))
	}
	// the plan = the segments that were started (every job of the final plan starts in a successful run)
	type seg struct{ first, last int }
	var segs []seg
	seen := map[int]bool{}
	for _, e := range rec.evs {
		if e.ev == "a.start" && !seen[int(e.a)] {
			seen[int(e.a)] = true
			segs = append(segs, seg{int(e.a), int(e.b)})
		}
	}
	sort.Slice(segs, func(i, j int) bool { return segs[i].first < segs[j].first })
	jobOf := map[int]int{}
	var plan []string
	for j, s := range segs {
		jobOf[s.first] = j
		plan = append(plan, fmt.Sprintf("%d:%d", s.first, s.last))
	}
	// the file after AssembleFile truncated it to the index length
	L := int(idx.Length())
	file0 := make([]byte, L)
	if priorKind != "absent" {
		copy(file0, prior)
	}
	cur := map[int64]int{} // goroutine -> job it is working on
	var evs []string
	for _, e := range rec.evs {
		switch e.ev {
		case "a.start":
			j := jobOf[int(e.a)]
			cur[e.gid] = j
			evs = append(evs, fmt.Sprintf("S:%d", j))
		case "a.write":
			evs = append(evs, fmt.Sprintf("W:%d:%d:%s", cur[e.gid], e.a, hexOrDash(e.data)))
		case "a.valid":
			evs = append(evs, fmt.Sprintf("V:%d:%d", cur[e.gid], rowOf[e.a]))
		case "a.inplace":
			evs = append(evs, fmt.Sprintf("P:%d:%d", cur[e.gid], rowOf[e.a]))
		case "a.store":
			evs = append(evs, fmt.Sprintf("T:%d:%d:%s", cur[e.gid], rowOf[e.a], hexOrDash(e.data)))
		case "a.selfcopy":
			evs = append(evs, fmt.Sprintf("C:%d:%d:%d", cur[e.gid], rowOf[e.a], rowOf[e.c]))
		case "a.finish":
			evs = append(evs, fmt.Sprintf("F:%d", jobOf[int(e.a)]))
		}
	}
	j := func(l []string) string {
		if len(l) == 0 {
			return "-"
		}
		return strings.Join(l, ",")
	}
	return []string{j(rows), j(plan), hexOrDash(file0), j(evs)}
}

// c01JudgeTrace replays the recorded events of a successful run on the model.
func c01JudgeTrace(o *vh.Oracle, r *vh.Result, c *c01Case) error {
	if o == nil || len(c.TraceArgs) != 4 || c.Result != "nil" {
		return nil
	}
	ans, err := o.Call("c01.atrace", c.TraceArgs...)
	if err != nil {
		return err
	}
	r.Corr()
	r.Dist("atrace:events:" + bucket(strings.Count(c.TraceArgs[3], ",")+1))
	for _, k := range []string{"W:", "V:", "P:", "T:", "C:"} {
		if strings.Contains(c.TraceArgs[3], ","+k) || strings.HasPrefix(c.TraceArgs[3], k) {
			r.Dist("atrace:has:" + k[:1])
		}
	}
	want := "ok 1 " + strings.ToLower(c.BlobHex)
	if c.BlobHex == "" || c.BlobHex == "-" {
		want = "ok 1 -"
	}
	c.TraceAns = ans
	switch {
	case strings.HasPrefix(ans, "FAIL"):
		var pos int
		fmt.Sscanf(ans, "FAIL %d", &pos)
		evs := strings.Split(c.TraceArgs[3], ",")
		lo, hi := pos-5, pos+1
		if lo < 0 {
			lo = 0
		}
		if hi > len(evs) {
			hi = len(evs)
		}
		short := make([]string, 0, hi-lo)
		for _, e := range evs[lo:hi] {
			if len(e) > 60 {
				e = e[:60] + "..."
			}
			short = append(short, e)
		}
		c.TraceAns = fmt.Sprintf("%s; events %d..%d: %s", ans, lo, hi-1, strings.Join(short, ","))
		r.Fail("corr", "corr:C01/trace", "an event the assemble workers performed is not enabled in Model/Assemble.v at that point (guard of the event fails on the model's file)", c)
	case ans != want:
		if len(ans) > 200 {
			c.TraceAns = ans[:200] + "..."
		}
		r.Fail("corr", "corr:C01/trace-final", "the model followed the recorded events but does not end with all jobs finished and the blob in the file", c)
	}
	return nil
}
