package main

// C13, root spellings: the archive must not depend on how the source directory is named on the
// command line / in NewLocalFS -- trailing slash, "./" prefix, doubled slashes, dir/../dir,
// relative vs absolute, a symlink to the directory followed by "/".  Every spelling must give
// the bytes of the canonical spelling (whose archive is validated and compared with the source);
// if it does not, the archive is judged on its own by the validator + listing.

import (
	"bytes"
	"context"
	"fmt"
	"os"
	"os/exec"
	"path/filepath"
	"time"

	"vh/internal/vh"
)

type c13Spelling struct {
	name string
	path string // as handed to desync
	dir  string // working directory for the CLI ("" = unchanged)
}

func c13Spellings(work, tree string) []c13Spelling {
	base := filepath.Base(tree)
	parent := filepath.Dir(tree)
	out := []c13Spelling{
		{"trailing-slash", tree + "/", ""},
		{"double-slash", parent + "//" + base, ""},
		{"dotdot", tree + "/../" + base, ""},
		{"dot-inside", parent + "/./" + base, ""},
		{"trailing-slash-dot", tree + "/.", ""},
	}
	if cwd, err := os.Getwd(); err == nil {
		if rel, err := filepath.Rel(cwd, tree); err == nil {
			out = append(out, c13Spelling{"relative", rel, ""}, c13Spelling{"relative-trailing-slash", rel + "/", ""})
		}
	}
	link := filepath.Join(work, "rootlink")
	os.Remove(link)
	if os.Symlink(base, link) == nil {
		out = append(out, c13Spelling{"symlink-slash", link + "/", ""})
	}
	// for the CLI: relative to its own working directory
	out = append(out, c13Spelling{"cli-dot-slash", "./" + base, parent}, c13Spelling{"cli-dot-slash-trailing", "./" + base + "/", parent},
		c13Spelling{"cli-bare-trailing", base + "/", parent})
	return out
}

func c13CheckRootSpellings(o *vh.Oracle, specFile string, r *vh.Result, c *c13Case, work, tree string, canonical []byte, want map[string]*c13Want, order []string, cliToo bool) error {
	judge := func(sp c13Spelling, how string, got []byte, rerr string) error {
		r.Count(fmt.Sprintf("root|%s|%s|%d", how, sp.name, len(canonical)), len(order) > 1)
		r.Dist("root-spelling:" + sp.name)
		d := *c
		d.Detail = fmt.Sprintf("source named %q (%s, %s)", sp.path, sp.name, how)
		if rerr != "" {
			r.Fail("predicate", "rootspelling/error", fmt.Sprintf("%s with the source named %q fails: %s", how, sp.path, c13Trunc(rerr)), &d)
			return nil
		}
		if bytes.Equal(got, canonical) {
			return nil
		}
		f := filepath.Join(work, "spelling.catar")
		if err := os.WriteFile(f, got, 0644); err != nil {
			return err
		}
		out, _, err := c13Validate(f)
		if err != nil {
			return err
		}
		if !out.OK {
			d.Errors = out.Errors
			r.Fail("predicate", "rootspelling/malformed", fmt.Sprintf("%s with the source named %q (%s): success, but the archive (%d bytes, canonical spelling %d) is rejected: %s", how, sp.path, sp.name, len(got), len(canonical), out.Errors[0].Msg), &d)
			return nil
		}
		if ms := c13Compare(want, order, out.Nodes); len(ms) > 0 {
			d.Detail += ": " + ms[0][1]
			r.Fail("predicate", "rootspelling/"+ms[0][0], fmt.Sprintf("%s with the source named %q (%s): success, but the archive (%d bytes, canonical spelling %d) does not hold the tree: %s (%d of %d nodes archived)", how, sp.path, sp.name, len(got), len(canonical), ms[0][1], len(out.Nodes), len(order)), &d)
			return nil
		}
		r.Fail("corr", "corr:C13/root-spelling-bytes", fmt.Sprintf("%s with the source named %q (%s) writes other bytes than with the canonical name (same listing)", how, sp.path, sp.name), &d)
		return nil
	}
	// FIFOs are skipped: the expectation is the one c13Judge uses; the caller has already filtered
	for _, sp := range c13Spellings(work, tree) {
		if sp.dir == "" {
			b, err := c13LibTar(sp.path)
			es := ""
			if err != nil {
				es = err.Error()
			}
			if err := judge(sp, "desync.Tar(NewLocalFS)", b, es); err != nil {
				return err
			}
			// the regrouping model (Model/TarWalk.v) on the same spelling: all nodes seen, nothing left
			if o != nil && specFile != "" && len(order) <= 100 && es == "" && bytes.Equal(b, canonical) {
				ans, err := o.Call("c13.sees", specFile, vh.Hex([]byte(sp.path)))
				if err != nil {
					return err
				}
				r.Corr()
				if wantAns := fmt.Sprintf("%d:0", len(order)); ans != wantAns {
					d := *c
					d.Detail = fmt.Sprintf("root %q: model sees nodes:left = %s, the implementation archived %s", sp.path, ans, wantAns)
					r.Fail("corr", "corr:C13/walk-regroup", "the regrouping model and tar() disagree on a root spelling", &d)
				}
			}
		}
		if cliToo && (sp.dir != "" || sp.name == "trailing-slash" || sp.name == "symlink-slash") {
			out := filepath.Join(work, "spelling-cli.catar")
			os.Remove(out)
			ctx, cancel := context.WithTimeout(context.Background(), 120*time.Second)
			cmd := exec.CommandContext(ctx, os.Getenv("VH_DESYNC"), "tar", out, sp.path)
			cmd.Dir = sp.dir
			var stderr bytes.Buffer
			cmd.Stderr = &stderr
			err := cmd.Run()
			cancel()
			es := ""
			var b []byte
			if err != nil {
				es = err.Error() + ": " + stderr.String()
			} else if b, err = os.ReadFile(out); err != nil {
				return err
			}
			if err := judge(sp, "`desync tar`", b, es); err != nil {
				return err
			}
		}
	}
	return nil
}
