package main

// C14 (f) putretry: index PUT (RemoteHTTPIndex.StoreIndex) and chunk PUT (RemoteHTTP.StoreChunk)
// under transient failures.  Judged on the implementation alone:
//   * the body of EVERY attempt the server receives is the whole payload (Index.WriteTo bytes /
//     the chunk in the client's storage format);
//   * the server receives at most max(1, error-retry) attempts;
//   * the call returns nil iff some attempt was answered 2xx having carried the whole payload,
//     and then the object the server holds is exactly the payload; after an error the server
//     holds no empty or partial object.
// Two servers: the scripted TCP server (k failures - 5xx, connection reset, broken response -
// then 2xx, for k below and beyond the budget) keeping the body of each PUT it answers 2xx, and
// the real HTTPIndexHandler / HTTPHandler over an upstream store whose first k writes fail.
// Also compared with the model (store_payload_log / stored_after).

import (
	"bytes"
	"fmt"
	"io"
	"net/http"
	"net/http/httptest"
	"net/url"
	"os"
	"path/filepath"
	"strconv"
	"strings"
	"sync"
	"time"

	"github.com/folbricht/desync"

	"vh/internal/vh"
)

type c14PutObs struct {
	err    error
	bodies [][]byte
	stored []byte // nil = the server holds no object
	hasObj bool
}

// the predicate; answered2xx[i] says whether attempt i was answered 200/201
func c14PutJudge(r *vh.Result, c *c14Case, obs c14PutObs, payload []byte, answered2xx []bool) {
	max := c.Budget
	if max < 1 {
		max = 1
	}
	c.Attempts, c.PayloadLen = len(obs.bodies), len(payload)
	c.BodyLens = nil
	for _, b := range obs.bodies {
		c.BodyLens = append(c.BodyLens, len(b))
	}
	c.Got = "nil"
	if obs.err != nil {
		c.Got = "error"
	}
	c.Stored = "none"
	if obs.hasObj {
		c.Stored = fmt.Sprintf("%d bytes, equal to payload: %v", len(obs.stored), bytes.Equal(obs.stored, payload))
	}
	what := func(m string) string {
		return fmt.Sprintf("%s PUT (%s server), error-retry %d, script %v: %s; result %s, %d attempts with body lengths %v, payload %d bytes, server object %s",
			c.Kind, c.Upstream, c.Budget, c.Script, m, c.Got, len(obs.bodies), c.BodyLens, len(payload), c.Stored)
	}
	for i, b := range obs.bodies {
		if !bytes.Equal(b, payload) {
			r.Fail("predicate", "putretry/attempt-body", what(fmt.Sprintf("attempt %d carried %d bytes that are not the payload", i+1, len(b))), c)
			break
		}
	}
	if len(obs.bodies) > max {
		r.Fail("predicate", "putretry/attempts-exceed-budget", what("more attempts than max(1, error-retry)"), c)
	}
	accepted := false
	for i, ok := range answered2xx {
		if ok && i < len(obs.bodies) && bytes.Equal(obs.bodies[i], payload) {
			accepted = true
		}
	}
	switch {
	case obs.err == nil && !accepted:
		r.Fail("predicate", "putretry/ok-without-delivery", what("nil returned although no attempt delivered the payload to a 2xx answer"), c)
	case obs.err != nil && accepted:
		r.Fail("predicate", "putretry/error-after-delivery", what("an error returned although an attempt was answered 2xx with the full payload"), c)
	}
	// a run of transient failures shorter than the budget must be invisible
	k := 0
	for k < len(c.Script) && c14Retryable(c.Script[k]) {
		k++
	}
	if k < max && k < len(c.Script) && (c.Script[k] == "200" || c.Script[k] == "201") && obs.err != nil {
		r.Fail("predicate", "putretry/transient-failure-visible", what(fmt.Sprintf("%d transient failures (< budget %d) followed by success leaked to the caller", k, max)), c)
	}
	if obs.err == nil && !(obs.hasObj && bytes.Equal(obs.stored, payload)) {
		r.Fail("predicate", "putretry/stored-object", what("nil returned but the server does not hold the payload"), c)
	}
	if obs.hasObj && !bytes.Equal(obs.stored, payload) {
		r.Fail("predicate", "putretry/stored-garbage", what("the server was left holding an object that is not the payload"), c)
	}
}

func c14PutCount(r *vh.Result, c *c14Case, obs c14PutObs) {
	r.Count(fmt.Sprintf("putretry|%s|%s|%d|%s", c.Kind, c.Upstream, c.Budget, strings.Join(c.Script, ",")), true)
	r.Dist("part:putretry")
	r.Dist("putretry-kind:" + c.Kind)
	r.Dist("putretry-server:" + c.Upstream)
	r.Dist(fmt.Sprintf("putretry-budget:%d", c.Budget))
	r.Dist(fmt.Sprintf("putretry-attempts:%d", len(obs.bodies)))
	r.Dist("putretry-result:" + c.Got)
	r.Sample(map[string]interface{}{"part": "putretry", "kind": c.Kind, "server": c.Upstream, "error_retry": c.Budget, "script": c.Script, "result": c.Got, "attempt_body_lengths": c.BodyLens, "payload": c.PayloadLen})
}

// one PUT against the scripted server
func c14PutScripted(a vh.Args, o *vh.Oracle, r *vh.Result, srv *c14ScriptSrv, kind string, budget int, script []string, idxBytes, data []byte, cliUnc bool) error {
	full := append([]string{}, script...)
	for len(full) < budget+3 || len(full) < 3 {
		full = append(full, "200")
	}
	srv.set(full, map[string][]byte{"500": []byte("boom"), "400": []byte("no")})
	u, _ := url.Parse("http://" + srv.ln.Addr().String() + "/")
	opt := desync.StoreOptions{Uncompressed: cliUnc, ErrorRetry: budget, ErrorRetryBaseInterval: 200 * time.Microsecond, Timeout: 5 * time.Second}
	var payload []byte
	var err error
	done := make(chan error, 1)
	switch kind {
	case "index":
		payload = idxBytes
		cli, e := desync.NewRemoteHTTPIndexStore(u, opt)
		if e != nil {
			return e
		}
		idx, e := desync.IndexFromReader(bytes.NewReader(idxBytes))
		if e != nil {
			return e
		}
		go func() { done <- cli.StoreIndex("a.caibx", idx) }()
	default:
		payload = data
		if !cliUnc {
			payload = c15Compress(data)
		}
		cli, e := desync.NewRemoteHTTPStore(u, opt)
		if e != nil {
			return e
		}
		go func() { done <- cli.StoreChunk(desync.NewChunk(data)) }()
	}
	select {
	case err = <-done:
	case <-time.After(30 * time.Second):
		err = fmt.Errorf("hang")
	}
	srv.wg.Wait()
	srv.mu.Lock()
	obs := c14PutObs{err: err, bodies: append([][]byte{}, srv.reqBodies...), stored: srv.stored, hasObj: srv.hasObj}
	srv.mu.Unlock()
	answered := make([]bool, len(obs.bodies))
	for i := range answered {
		answered[i] = i < len(full) && (full[i] == "200" || full[i] == "201")
	}
	c := &c14Case{Part: "putretry", Kind: kind, Upstream: "scripted", Budget: budget, Script: script, CliUnc: cliUnc}
	c14PutJudge(r, c, obs, payload, answered)
	c14PutCount(r, c, obs)
	if o == nil {
		return nil
	}
	toks := make([]string, len(full))
	for i, t := range full {
		switch t {
		case "reset":
			toks[i] = "T"
		case "short":
			toks[i] = "B"
		default:
			toks[i] = "s" + t
		}
	}
	mb := budget
	if mb < 0 {
		mb = 0
	}
	ans, oerr := o.Call("c14.putlog", strconv.Itoa(mb), vh.Hex(payload), strings.Join(toks, ","))
	if oerr != nil {
		return oerr
	}
	r.Corr()
	var hb []string
	for _, b := range obs.bodies {
		hb = append(hb, vh.Hex(b))
	}
	obj := "NONE"
	if obs.hasObj {
		obj = vh.Hex(obs.stored)
	}
	got := fmt.Sprintf("%s %d %s %s", map[bool]string{true: "ok", false: "error"}[err == nil], len(obs.bodies), strings.Join(hb, ","), obj)
	c.Model = c14Short(ans)
	if ans != got {
		r.Fail("corr", "corr:C14/put-log", fmt.Sprintf("%s PUT error-retry %d %v: model (%s), implementation (%s)", kind, budget, script, c14Short(ans), c14Short(got)), c)
	}
	return nil
}

// upstream stores whose first k writes fail
type c14FlakyIndexStore struct {
	desync.LocalIndexStore
	mu    *sync.Mutex
	fails *int
}

func (s c14FlakyIndexStore) StoreIndex(name string, idx desync.Index) error {
	s.mu.Lock()
	f := *s.fails
	if f > 0 {
		*s.fails = f - 1
	}
	s.mu.Unlock()
	if f > 0 {
		return fmt.Errorf("injected upstream failure")
	}
	return s.LocalIndexStore.StoreIndex(name, idx)
}

type c14FlakyStore struct {
	desync.LocalStore
	mu    *sync.Mutex
	fails *int
}

func (s c14FlakyStore) StoreChunk(ch *desync.Chunk) error {
	s.mu.Lock()
	f := *s.fails
	if f > 0 {
		*s.fails = f - 1
	}
	s.mu.Unlock()
	if f > 0 {
		return fmt.Errorf("injected upstream failure")
	}
	return s.LocalStore.StoreChunk(ch)
}

// one PUT through the real handler over a flaky upstream store
func c14PutHandler(a vh.Args, r *vh.Result, kind string, budget, failures int, idxBytes, data []byte, n int) error {
	dir := filepath.Join(a.Work, fmt.Sprintf("putretry-%s-%d", kind, n))
	os.MkdirAll(dir, 0755)
	defer os.RemoveAll(dir)
	var mu sync.Mutex
	fails := failures
	var bodies [][]byte
	var codes []int
	var h http.Handler
	if kind == "index" {
		is, err := desync.NewLocalIndexStore(dir)
		if err != nil {
			return err
		}
		h = desync.NewHTTPIndexHandler(c14FlakyIndexStore{is, &mu, &fails}, true, "")
	} else {
		ls, err := desync.NewLocalStore(dir, desync.StoreOptions{})
		if err != nil {
			return err
		}
		h = desync.NewHTTPHandler(c14FlakyStore{ls, &mu, &fails}, true, false, desync.Converters{desync.Compressor{}}, "")
	}
	srv := httptest.NewServer(http.HandlerFunc(func(w http.ResponseWriter, req *http.Request) {
		b, _ := io.ReadAll(req.Body)
		req.Body = io.NopCloser(bytes.NewReader(b))
		rec := &c14StatusRec{ResponseWriter: w, code: 200}
		h.ServeHTTP(rec, req)
		mu.Lock()
		bodies = append(bodies, b)
		codes = append(codes, rec.code)
		mu.Unlock()
	}))
	defer srv.Close()
	u, _ := url.Parse(srv.URL)
	opt := desync.StoreOptions{ErrorRetry: budget, ErrorRetryBaseInterval: 200 * time.Microsecond, Timeout: 5 * time.Second}
	var payload []byte
	var file string
	done := make(chan error, 1)
	if kind == "index" {
		payload = idxBytes
		file = filepath.Join(dir, "a.caibx")
		cli, err := desync.NewRemoteHTTPIndexStore(u, opt)
		if err != nil {
			return err
		}
		idx, err := desync.IndexFromReader(bytes.NewReader(idxBytes))
		if err != nil {
			return err
		}
		go func() { done <- cli.StoreIndex("a.caibx", idx) }()
	} else {
		payload = c15Compress(data)
		file = c14StoreFile(dir, c15ID(data), false)
		cli, err := desync.NewRemoteHTTPStore(u, opt)
		if err != nil {
			return err
		}
		go func() { done <- cli.StoreChunk(desync.NewChunk(data)) }()
	}
	var err error
	select {
	case err = <-done:
	case <-time.After(30 * time.Second):
		err = fmt.Errorf("hang")
	}
	mu.Lock()
	obs := c14PutObs{err: err, bodies: append([][]byte{}, bodies...)}
	answered := make([]bool, len(codes))
	script := make([]string, len(codes))
	for i, cd := range codes {
		answered[i] = cd == 200 || cd == 201
		script[i] = strconv.Itoa(cd)
	}
	mu.Unlock()
	if b, rerr := os.ReadFile(file); rerr == nil {
		obs.stored, obs.hasObj = b, true
	}
	c := &c14Case{Part: "putretry", Kind: kind, Upstream: fmt.Sprintf("handler, first %d upstream writes fail", failures), Budget: budget, Script: script}
	// the expectation in script form: `failures` 500s then 200
	exp := []string{}
	for i := 0; i < failures; i++ {
		exp = append(exp, "500")
	}
	c.Script = append(exp, "200")
	c14PutJudge(r, c, obs, payload, answered)
	c14PutCount(r, c, obs)
	return nil
}

type c14StatusRec struct {
	http.ResponseWriter
	code int
}

func (w *c14StatusRec) WriteHeader(c int) { w.code = c; w.ResponseWriter.WriteHeader(c) }

func c14PutRetries(a vh.Args, o *vh.Oracle, r *vh.Result, rng *vh.Rand) error {
	srv, err := c14NewScriptSrv()
	if err != nil {
		return err
	}
	defer srv.ln.Close()
	idxBytes := c15Index(rng, 6)
	data := rng.Bytes(300)
	budgets := []int{0, 1, 2, 3, 5}
	failToks := []string{"503", "500", "reset", "short"}
	n := 0
	for _, kind := range []string{"index", "chunk"} {
		for _, b := range budgets {
			max := b
			if max < 1 {
				max = 1
			}
			for k := 0; k <= max+1; k++ {
				// k failures of one kind (rotating), then success; quick tier: one kind per (b,k), thorough: all
				kinds := []string{failToks[(n+k)%len(failToks)]}
				if a.Tier == "thorough" || k == 1 {
					kinds = failToks
				}
				for _, ft := range kinds {
					script := []string{}
					for i := 0; i < k; i++ {
						script = append(script, ft)
					}
					final := "200"
					if rng.Chance(1, 5) {
						final = "201"
					}
					if err := c14PutScripted(a, o, r, srv, kind, b, append(script, final), idxBytes, data, n%2 == 0); err != nil {
						return err
					}
					n++
				}
				// mixed failures, and a non-retryable refusal after the failures
				mixed := []string{}
				for i := 0; i < k; i++ {
					mixed = append(mixed, failToks[rng.Intn(len(failToks))])
				}
				if err := c14PutScripted(a, o, r, srv, kind, b, append(append([]string{}, mixed...), "200"), idxBytes, data, n%2 == 1); err != nil {
					return err
				}
				if err := c14PutScripted(a, o, r, srv, kind, b, append(append([]string{}, mixed...), "400", "200"), idxBytes, data, n%2 == 0); err != nil {
					return err
				}
				n++
			}
		}
		// the real handlers over an upstream store whose first k writes fail
		for _, b := range []int{1, 2, 3, 5} {
			for k := 0; k <= b && k <= 4; k++ {
				if err := c14PutHandler(a, r, kind, b, k, idxBytes, data, n); err != nil {
					return err
				}
				n++
			}
		}
	}
	return nil
}
