package main

import (
	"fmt"
	"sort"
	"strconv"
	"strings"

	"vh/internal/vh"
)

// Resonant parameters.  Inside a run of one byte value b every 48-byte window has the same hash
// h_b, so the rule either never cuts inside such a run (chunks of max bytes) or, when the
// discriminator d derived from avg divides h_b + 1, cuts after every min+1 bytes.  The second
// case needs an avg picked for it (for zero runs: avg 5251 and 818564 are the only two below 4 M),
// so random triples never meet it; a chunker that treats constant runs specially ("a zero run
// contains no boundary") is wrong exactly there.  This family computes h_b with the model
// (c02.winhash, generated table), factorises h_b + 1, inverts the discriminator formula
// (monotone: C02_disc_monotone) by bisection through the model, and runs the sequential and the
// parallel comparison on runs of b with those parameters.

func c02Divisors(n uint64, lo, hi uint64) []uint64 {
	var ps []uint64
	m := n
	for p := uint64(2); p*p <= m; p++ {
		for m%p == 0 {
			ps = append(ps, p)
			m /= p
		}
	}
	if m > 1 {
		ps = append(ps, m)
	}
	set := map[uint64]bool{1: true}
	for _, p := range ps {
		next := map[uint64]bool{}
		for d := range set {
			next[d] = true
			if d*p <= hi {
				next[d*p] = true
			}
		}
		set = next
	}
	var out []uint64
	for d := range set {
		if d >= lo && d <= hi {
			out = append(out, d)
		}
	}
	sort.Slice(out, func(i, j int) bool { return out[i] < out[j] })
	return out
}

// c02AvgForDisc returns an avg in [48, hiAvg] whose discriminator is d, if there is one.
func c02AvgForDisc(o *vh.Oracle, d uint64, hiAvg uint64) (uint64, bool, error) {
	disc := func(a uint64) (uint64, error) {
		ans, err := o.Call("c02.disc", u(a))
		if err != nil {
			return 0, err
		}
		v, err := strconv.ParseUint(strings.TrimSpace(ans), 10, 64)
		return v, err
	}
	lo, hi := uint64(48), hiAvg
	for lo < hi {
		mid := (lo + hi) / 2
		v, err := disc(mid)
		if err != nil {
			return 0, false, err
		}
		if v < d {
			lo = mid + 1
		} else {
			hi = mid
		}
	}
	v, err := disc(lo)
	if err != nil {
		return 0, false, err
	}
	return lo, v == d, nil
}

func c02Resonance(a vh.Args, o *vh.Oracle, r *vh.Result, rng *vh.Rand) error {
	if o == nil {
		return nil
	}
	hiAvg := uint64(20000)
	bytesToTry := []byte{0x00, 0xff, 0x20, 0x01}
	if a.Tier == "thorough" {
		hiAvg = 120000
		bytesToTry = append(bytesToTry, 'a', 0x80, 0x7f, byte(rng.Intn(256)), byte(rng.Intn(256)))
	}
	found := 0
	perByte := 2 // quick: two resonant avgs per byte value (zero runs first)
	if a.Tier == "thorough" {
		perByte = 1000
	}
	for _, b := range bytesToTry {
		nb := 0
		win := strings.Repeat(fmt.Sprintf("%02x", b), 48)
		ans, err := o.Call("c02.winhash", win)
		if err != nil {
			return err
		}
		h, err := strconv.ParseUint(strings.TrimSpace(ans), 10, 64)
		if err != nil {
			return fmt.Errorf("c02.winhash: %s", ans)
		}
		// discriminators of avg 48..hiAvg lie between 36 and about hiAvg
		for _, d := range c02Divisors(h+1, 30, hiAvg) {
			avg, ok, err := c02AvgForDisc(o, d, hiAvg)
			if err != nil {
				return err
			}
			if !ok || nb >= perByte {
				continue
			}
			nb++
			found++
			r.Dist("resonance:found")
			for k := 0; k < 3; k++ {
				mn := uint64(48 + rng.Intn(int(avg)-47))
				if mn > 400 {
					mn = uint64(48 + rng.Intn(352))
				}
				mx := avg + uint64(rng.Intn(200))
				// k=0: nothing but the run, longer than two max-size chunks; k=1: the run ends the input;
				// k=2: the run is longer than a max-size chunk and followed by other data
				var pre, suf []byte
				run := 2*int(mx) + rng.Intn(500)
				switch k {
				case 1:
					pre = rng.Bytes(rng.Intn(200))
					run = int(mn)*3 + rng.Intn(3000)
				case 2:
					pre = rng.Bytes(rng.Intn(200))
					run = int(mx) + int(mn)*2 + rng.Intn(500)
					suf = rng.Bytes(1 + rng.Intn(600))
				}
				if run > 11500 {
					run = 11500
				}
				blob := append([]byte{}, pre...)
				for i := 0; i < run; i++ {
					blob = append(blob, b)
				}
				blob = append(blob, suf...)
				c := &c02Case{Kind: "seq", BlobHex: vh.Hex(blob), Min: mn, Avg: avg, Max: mx, Shape: fmt.Sprintf("resonant-run-%02x", b)}
				if k == 1 {
					c.Frags = []int{1 + rng.Intn(97), 1 + rng.Intn(500)}
				}
				if err := c02Seq(a, o, r, c); err != nil {
					return err
				}
				pc := &c02Case{Kind: "par", BlobHex: vh.Hex(blob), Min: mn, Avg: avg, Max: mx, N: 1 + rng.Intn(5), Shape: c.Shape, Sched: rng.U64() % 1000000}
				if err := c02Par(a, o, r, pc, 3); err != nil {
					return err
				}
			}
		}
	}
	if found == 0 {
		r.Note("resonance: no avg in 48..%d resonates with the byte values tried", hiAvg)
	}
	return nil
}
