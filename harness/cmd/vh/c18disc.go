package main

// C18: discovery of INTERMEDIATE paths.
//
// The model of the writer (Model/Untar.v) passes only one kind of path to the kernel:
// dest joined with an entry path of the archive (Coq: C18_writes_only_entry_paths).  A
// writer that also uses other names under the destination (temporary, partial, lock
// files) is outside that model, and such a name cannot be guessed by a generator.  So
// it is found from a run: the archive is unpacked once by the CLI under
// `strace -f -e trace=%file`, every path under the destination that a mutating system call
// names and that is NOT dest joined with an entry path is an intermediate path, and for
// each one the case is run again with a symbolic link to an outside sentinel planted
// there, (a) as an earlier entry of the same directory in the archive and (b) left in the
// destination beforehand.  The usual outside-snapshot predicate judges these runs.

import (
	"path"
	"path/filepath"
	"regexp"
	"strings"
)

var c18SyscallRe = regexp.MustCompile(`^\d+\s+(\w+)\(`)

// system calls that change what a path names (open* only with write/create flags)
var c18Mutating = map[string]bool{
	"mkdir": true, "mkdirat": true, "rename": true, "renameat": true, "renameat2": true, "symlink": true, "symlinkat": true,
	"mknod": true, "mknodat": true, "link": true, "linkat": true, "unlink": true, "unlinkat": true, "rmdir": true,
	"chmod": true, "fchmodat": true, "fchmodat2": true, "chown": true, "lchown": true, "fchownat": true,
	"utimensat": true, "utimes": true, "utime": true, "futimesat": true, "setxattr": true, "lsetxattr": true,
	"truncate": true, "creat": true,
}

// the quoted string arguments of one strace line, unescaped
func c18Quoted(line string) []string {
	var out []string
	for i := 0; i < len(line); i++ {
		if line[i] != '"' {
			continue
		}
		var b []byte
		j := i + 1
		for ; j < len(line) && line[j] != '"'; j++ {
			if line[j] != '\\' || j+1 >= len(line) {
				b = append(b, line[j])
				continue
			}
			j++
			switch ch := line[j]; ch {
			case 'n':
				b = append(b, '\n')
			case 't':
				b = append(b, '\t')
			case 'r':
				b = append(b, '\r')
			case 'v':
				b = append(b, '\v')
			case 'f':
				b = append(b, '\f')
			case 'x':
				v := 0
				k := 0
				for ; k < 2 && j+1 < len(line) && strings.IndexByte("0123456789abcdefABCDEF", line[j+1]) >= 0; k++ {
					j++
					v = v*16 + strings.IndexByte("0123456789abcdef", strings.ToLower(string(line[j]))[0])
				}
				b = append(b, byte(v))
			default:
				if ch >= '0' && ch <= '7' {
					v := int(ch - '0')
					for k := 0; k < 2 && j+1 < len(line) && line[j+1] >= '0' && line[j+1] <= '7'; k++ {
						j++
						v = v*8 + int(line[j]-'0')
					}
					b = append(b, byte(v))
				} else {
					b = append(b, ch)
				}
			}
		}
		out = append(out, string(b))
		i = j
	}
	return out
}

// c18TraceTouched lists the paths at or below dest that a mutating system call of the trace names.
func c18TraceTouched(trace, dest string) []string {
	seen := map[string]bool{}
	var out []string
	for _, line := range strings.Split(trace, "\n") {
		m := c18SyscallRe.FindStringSubmatch(line)
		if m == nil {
			continue
		}
		name := m[1]
		mut := c18Mutating[name]
		if name == "open" || name == "openat" || name == "openat2" {
			mut = strings.Contains(line, "O_WRONLY") || strings.Contains(line, "O_RDWR") || strings.Contains(line, "O_CREAT") ||
				strings.Contains(line, "O_TRUNC") || strings.Contains(line, "O_APPEND")
		}
		if !mut {
			continue
		}
		args := c18Quoted(line)
		if (name == "symlink" || name == "symlinkat") && len(args) > 1 {
			args = args[len(args)-1:] // the first string is the link's content, not a path that is touched
		}
		for _, a := range args {
			if !strings.HasPrefix(a, "/") {
				continue
			}
			a = path.Clean(a)
			if c18Under(a, dest) && !seen[a] {
				seen[a] = true
				out = append(out, a)
			}
		}
	}
	return out
}

// c18Intermediate: the touched paths (relative to dest) that are not dest joined with an entry path.
func c18Intermediate(c *c18Case) []string {
	entry := map[string]bool{".": true}
	np := strings.SplitN(c.Nodes, " ", 2)
	if len(np) == 2 && np[1] != "-" {
		for _, t := range strings.Split(np[1], ",") {
			f := strings.SplitN(t, ":", 2)
			if len(f) == 2 {
				entry[path.Clean(string(vh_unhex(f[1])))] = true
			}
		}
	}
	var out []string
	for _, t := range c.Touched {
		rel := "."
		if t != "" {
			rel = t
		}
		if !entry[rel] {
			out = append(out, rel)
		}
	}
	return out
}

func vh_unhex(s string) []byte {
	if s == "-" {
		return nil
	}
	return []byte(unhx(s))
}

// c18PlantInArchive inserts a link entry <base> -> target as the first entry of the directory
// dirRel ("." = the root) of the archive; ok is false if the archive never enters that directory.
func c18PlantInArchive(els []c18El, dirRel, base, target string) ([]c18El, bool) {
	link := []c18El{{K: "F", S: hx(base)}, {K: "E", Mode: sIFLNK | 0777}, {K: "S", S: hx(target)}}
	ins := func(at int) []c18El {
		out := append([]c18El{}, els[:at]...)
		out = append(out, link...)
		return append(out, els[at:]...)
	}
	var stack []string
	pending, first := "", true
	for i := 0; i < len(els); i++ {
		switch els[i].K {
		case "F":
			pending = unhx(els[i].S)
		case "G":
			if len(stack) > 0 {
				stack = stack[:len(stack)-1]
			}
		case "E":
			j, leaf := i+1, false
		scan:
			for ; j < len(els); j++ {
				switch els[j].K {
				case "P", "S", "D":
					leaf = true
				case "X", "O":
				default:
					break scan
				}
			}
			if !leaf {
				if !(first && pending == "") {
					stack = append(stack, pending)
				}
				cur := "."
				if len(stack) > 0 {
					cur = strings.Join(stack, "/")
				}
				if cur == dirRel {
					return ins(j), true
				}
			}
			pending, first = "", false
		}
	}
	if dirRel == "." && (len(els) == 0 || els[0].K == "F") {
		return ins(0), true // no root entry: the decoder starts in "."
	}
	return nil, false
}

// c18PlantVariants builds, for one intermediate path of a case, the runs with a link planted there.
func c18PlantVariants(c *c18Case, rel string) []*c18Case {
	var out []*c18Case
	dir, base := path.Dir(rel), path.Base(rel)
	for _, target := range []string{"@SB@/outside/x", "@SB@/outside", "../outside/planted-new"} {
		if els, ok := c18PlantInArchive(c.Elems, dir, base, target); ok {
			v := *c
			v.Shape, v.Elems, v.Via, v.Discover, v.Touched = "planted-in-archive", els, "untar", false, nil
			v.Planted = rel
			out = append(out, &v)
		}
		if c.Dest == "" {
			v := *c
			v.Shape, v.Via, v.Discover, v.Touched = "planted-in-destination", "untar", false, nil
			v.Pre = append(append([]c18Pre{}, c.Pre...), c18Pre{Path: rel, Kind: "l", S: hx(target)})
			v.Planted = rel
			out = append(out, &v)
		}
	}
	return out
}

var _ = filepath.Join
