#!/usr/bin/env python3
"""catar.py -- independent validator for casync .catar archives (property C13).

Written from casync's serialization rules (caformat.h / the casync encoder and
decoder), not from desync's code.  Plain python3, no dependencies.

usage: catar.py [--unsorted-ok] [--long-names-ok] [--no-content-hash] FILE
  exit 0  archive is a well-formed casync catar; a JSON document is printed:
            {"ok": true, "errors": [], "nodes": [ ... canonical listing ... ]}
  exit 1  archive is rejected; same JSON with "ok": false and every rule that
          failed as {"class": ..., "path": ..., "offset": ..., "msg": ...}.
          The listing holds what could still be parsed.
  exit 2  usage / IO problem

Rules checked
  R1  every element: 16-byte header (size, type), size >= 16, element inside the
      file; the size field equals the encoded length for the element's type
      (ENTRY 64, DEVICE 32, strings NUL-terminated without inner NUL, GOODBYE
      16 + 24*k with k >= 1).
  R2  element order per node: ENTRY, [USER], [GROUP], XATTR* (names strictly
      ascending), [ACL...], [SELINUX], [FCAPS], then by file type of
      ENTRY.mode: regular -> PAYLOAD; symlink -> SYMLINK; block/char -> DEVICE;
      fifo/socket -> nothing; directory -> (FILENAME node)* GOODBYE.
      The archive is exactly one node; nothing follows it.
  R3  ENTRY: known file type, permission bits within 07777, all entries carry
      the same feature flags, uid/gid fit the uid width selected by the flags,
      mtime != 2^64-1, mtime granularity as selected by the flags.
  R4  FILENAME: 1..255 bytes (longer ones -- a tar stream can carry them -- only with
      --long-names-ok; the goodbye hash is always that of the WHOLE name), no '/', not "." or
      ".."; names strictly ascending
      within a directory (bytewise, as strcmp) -- class order/filenames-unsorted; with
      --unsorted-ok (archives made from a tar stream) the order is not judged.
  R5  GOODBYE of a directory with children c_0..c_{k-1}: k+1 items; the last is
      the tail: hash = TAIL_MARKER, offset = goodbye_start - entry_start,
      size = size of the GOODBYE element.  The first k items are one per child:
      offset = goodbye_start - start of the child's FILENAME element,
      size = distance from the child's FILENAME element to the end of the
      child's last element, hash = SipHash-2-4(name, casync key); laid out as a
      complete binary search tree in array order (children of slot i at 2i+1,
      2i+2): the in-order traversal is ascending in hash, and casync's descent
      (equal -> found, smaller -> 2i+1, larger -> 2i+2) started at slot 0
      reaches, for every child name, an item with that name's hash; when the
      hash is unique in the directory it is that child's item.
"""
import sys, struct, json, hashlib

# ---- constants of the casync format (caformat.h) ----
ENTRY = 0x1396fabcea5bbb51
USER = 0xf453131aaeeaccb3
GROUP = 0x25eb6ac969396a52
XATTR = 0xb8157091f80bc486
ACL_USER = 0x297dc88b2ef12faf
ACL_GROUP = 0x36f2acb56cb3dd0b
ACL_GROUP_OBJ = 0x23047110441f38f3
ACL_DEFAULT = 0xfe3eeda6823c8cd0
ACL_DEFAULT_USER = 0xbdf03df9bd010a91
ACL_DEFAULT_GROUP = 0xa0cb1168782d1f51
FCAPS = 0xf7267db0afed0629
SELINUX = 0x46faf0602fd26c59
SYMLINK = 0x664a6fb6830e0d6c
DEVICE = 0xac3dace369dfe643
PAYLOAD = 0x8b9e1d93d6dcffc9
FILENAME = 0x6dbb6ebcb3161f0b
GOODBYE = 0xdfd35c5e8327c403
TAIL_MARKER = 0x57446fa533702943
# CA_FORMAT_GOODBYE_HASH_KEY, 16 bytes
HASH_KEY = bytes([0xb3, 0x84, 0x1d, 0x0f, 0x2b, 0x44, 0x74, 0x85,
                  0xc1, 0x2e, 0xc2, 0xd1, 0x30, 0xed, 0x36, 0x27])

WITH_16BIT_UIDS = 0x1
WITH_32BIT_UIDS = 0x2
WITH_USER_NAMES = 0x4
WITH_SEC_TIME = 0x8
WITH_USEC_TIME = 0x10
WITH_NSEC_TIME = 0x20
WITH_2SEC_TIME = 0x40

S_IFMT, S_IFSOCK, S_IFLNK, S_IFREG, S_IFBLK, S_IFDIR, S_IFCHR, S_IFIFO = \
    0o170000, 0o140000, 0o120000, 0o100000, 0o060000, 0o040000, 0o020000, 0o010000
TYPENAME = {S_IFSOCK: 'socket', S_IFLNK: 'symlink', S_IFREG: 'file', S_IFBLK: 'block',
            S_IFDIR: 'dir', S_IFCHR: 'char', S_IFIFO: 'fifo'}

M64 = (1 << 64) - 1


# ---- SipHash-2-4 (Aumasson & Bernstein), 64-bit output ----
def _rotl(x, b):
    return ((x << b) | (x >> (64 - b))) & M64


def siphash24(key, data):
    k0, k1 = struct.unpack('<QQ', key)
    v0 = k0 ^ 0x736f6d6570736575
    v1 = k1 ^ 0x646f72616e646f6d
    v2 = k0 ^ 0x6c7967656e657261
    v3 = k1 ^ 0x7465646279746573

    def rnd(v0, v1, v2, v3):
        v0 = (v0 + v1) & M64; v1 = _rotl(v1, 13); v1 ^= v0; v0 = _rotl(v0, 32)
        v2 = (v2 + v3) & M64; v3 = _rotl(v3, 16); v3 ^= v2
        v0 = (v0 + v3) & M64; v3 = _rotl(v3, 21); v3 ^= v0
        v2 = (v2 + v1) & M64; v1 = _rotl(v1, 17); v1 ^= v2; v2 = _rotl(v2, 32)
        return v0, v1, v2, v3

    n = len(data)
    full = n - n % 8
    for i in range(0, full, 8):
        m = struct.unpack_from('<Q', data, i)[0]
        v3 ^= m
        v0, v1, v2, v3 = rnd(v0, v1, v2, v3)
        v0, v1, v2, v3 = rnd(v0, v1, v2, v3)
        v0 ^= m
    last = (n & 0xff) << 56
    for j, c in enumerate(data[full:]):
        last |= c << (8 * j)
    v3 ^= last
    v0, v1, v2, v3 = rnd(v0, v1, v2, v3)
    v0, v1, v2, v3 = rnd(v0, v1, v2, v3)
    v0 ^= last
    v2 ^= 0xff
    for _ in range(4):
        v0, v1, v2, v3 = rnd(v0, v1, v2, v3)
    return v0 ^ v1 ^ v2 ^ v3


def siphash_selftest():
    # reference vectors of the SipHash paper's implementation: key 00..0f, input 00..(n-1)
    key = bytes(range(16))
    want = {0: 0x726fdb47dd0e0e31, 1: 0x74f839c593dc67fd, 7: 0xab0200f58b01d137,
            8: 0x93f5f5799a932462, 15: 0xa129ca6149be45e5, 63: 0x958a324ceb064572}
    for n, w in want.items():
        if siphash24(key, bytes(range(n))) != w:
            raise SystemExit('siphash self-test failed for length %d' % n)


class Fatal(Exception):
    pass


class Validator:
    def __init__(self, buf, unsorted_ok=False, content_hash=True, long_names_ok=False):
        self.long_names_ok = long_names_ok
        self.b = buf
        self.errors = []
        self.nodes = []
        self.feature_flags = None
        self.unsorted_ok = unsorted_ok
        self.content_hash = content_hash

    def err(self, cls, path, off, msg):
        self.errors.append({'class': cls, 'path': pathstr(path), 'path_hex': pathhex(path), 'offset': off, 'msg': msg})

    def fatal(self, cls, path, off, msg):
        self.err(cls, path, off, msg)
        raise Fatal()

    # -- R1: one element at pos; returns (type, size, body) --
    def element(self, pos, path):
        b = self.b
        if pos == len(b):
            self.fatal('structure/truncated', path, pos, 'archive ends where an element is expected')
        if pos + 16 > len(b):
            self.fatal('structure/truncated', path, pos, 'less than 16 bytes left for an element header')
        size, typ = struct.unpack_from('<QQ', b, pos)
        if size < 16:
            self.fatal('size/too-small', path, pos, 'element size %d < 16' % size)
        if pos + size > len(b):
            self.fatal('size/beyond-end', path, pos, 'element type %x size %d runs past the end of the archive' % (typ, size))
        return typ, size, b[pos + 16:pos + size]

    def cstring(self, body, what, path, pos):
        """body must be a NUL-terminated string without inner NUL (size field = encoded length)"""
        if len(body) < 1 or body[-1] != 0:
            self.fatal('size/' + what, path, pos, what + ' is not NUL terminated at its size')
        s = body[:-1]
        if b'\0' in s:
            self.fatal('size/' + what, path, pos, what + ' has an embedded NUL: size field larger than the string')
        return s

    # -- one node starting with its ENTRY at pos; returns end position --
    def node(self, pos, path):
        entry_start = pos
        typ, size, body = self.element(pos, path)
        if typ != ENTRY:
            self.fatal('order/entry-expected', path, pos, 'expected ENTRY, found element type %x' % typ)
        if size != 64:
            self.fatal('size/entry', path, pos, 'ENTRY size %d != 64' % size)
        feature_flags, mode, flags, uid, gid, mtime = struct.unpack('<6Q', body)
        pos += size
        # R3
        if self.feature_flags is None:
            self.feature_flags = feature_flags
            if bin(feature_flags & (WITH_16BIT_UIDS | WITH_32BIT_UIDS)).count('1') > 1:
                self.err('entry/feature-flags', path, entry_start, 'both uid widths selected')
            if bin(feature_flags & (WITH_SEC_TIME | WITH_USEC_TIME | WITH_NSEC_TIME | WITH_2SEC_TIME)).count('1') > 1:
                self.err('entry/feature-flags', path, entry_start, 'more than one time granularity selected')
        elif feature_flags != self.feature_flags:
            self.err('entry/feature-flags', path, entry_start, 'feature flags %x differ from the first entry %x' % (feature_flags, self.feature_flags))
        ft = mode & S_IFMT
        if mode & ~(S_IFMT | 0o7777) or ft not in TYPENAME:
            self.fatal('entry/mode', path, entry_start, 'invalid mode %o' % mode)
        if feature_flags & WITH_16BIT_UIDS:
            lim = 0xffff
        elif feature_flags & WITH_32BIT_UIDS:
            lim = 0xffffffff
        else:
            lim = 0
        if lim and (uid >= lim or gid >= lim):     # the all-ones id is invalid as well
            self.err('entry/uid', path, entry_start, 'uid/gid %d/%d outside the selected width' % (uid, gid))
        if not lim and (uid or gid):
            self.err('entry/uid', path, entry_start, 'uid/gid stored without a uid feature flag')
        if mtime == M64:
            self.err('entry/mtime', path, entry_start, 'mtime is 2^64-1')
        if feature_flags & WITH_NSEC_TIME:
            gran = 1
        elif feature_flags & WITH_USEC_TIME:
            gran = 1000
        elif feature_flags & WITH_SEC_TIME:
            gran = 10 ** 9
        elif feature_flags & WITH_2SEC_TIME:
            gran = 2 * 10 ** 9
        else:
            gran = None
        if gran is None:
            if mtime:
                self.err('entry/mtime', path, entry_start, 'mtime stored without a time feature flag')
        elif mtime % gran:
            self.err('entry/mtime', path, entry_start, 'mtime finer than the selected granularity')

        nd = {'path': pathstr(path), 'path_hex': pathhex(path), 'type': TYPENAME[ft], 'mode': mode & 0o7777,
              'uid': uid, 'gid': gid, 'mtime': mtime, 'flags': flags, 'xattrs': {}}
        self.nodes.append(nd)

        # R2: optional metadata elements in casync's order
        stage = 0
        last_xattr = None
        META = {USER: 1, GROUP: 2, XATTR: 3, ACL_USER: 4, ACL_GROUP: 5, ACL_GROUP_OBJ: 6, ACL_DEFAULT: 7,
                ACL_DEFAULT_USER: 8, ACL_DEFAULT_GROUP: 9, SELINUX: 10, FCAPS: 11}
        REPEAT = {XATTR, ACL_USER, ACL_GROUP, ACL_DEFAULT_USER, ACL_DEFAULT_GROUP}
        while pos < len(self.b):
            if pos + 16 > len(self.b):
                break
            typ = struct.unpack_from('<Q', self.b, pos + 8)[0]
            if typ not in META:
                break
            epos = pos
            typ, size, body = self.element(pos, path)
            st = META[typ]
            if st < stage or (st == stage and typ not in REPEAT):
                self.fatal('order/metadata', path, epos, 'metadata element type %x out of order' % typ)
            stage = st
            if typ in (USER, GROUP, SELINUX):
                s = self.cstring(body, 'string', path, epos)
                nd[{USER: 'user', GROUP: 'group', SELINUX: 'selinux'}[typ]] = s.decode('latin-1')
            elif typ == XATTR:
                i = body.find(b'\0')
                if i < 1:
                    self.fatal('size/xattr', path, epos, 'XATTR without a NUL-terminated, non-empty name')
                name, value = body[:i], body[i + 1:]
                if last_xattr is not None and not (last_xattr < name):
                    self.err('order/xattrs-unsorted', path, epos, 'XATTR %r does not sort after %r' % (name, last_xattr))
                last_xattr = name
                nd['xattrs'][name.hex()] = value.hex()
            elif typ in (ACL_USER, ACL_GROUP, ACL_DEFAULT_USER, ACL_DEFAULT_GROUP):
                if size < 32:
                    self.fatal('size/acl', path, epos, 'ACL element too small')
            elif typ == ACL_GROUP_OBJ:
                if size != 24:
                    self.fatal('size/acl', path, epos, 'ACL_GROUP_OBJ size != 24')
            elif typ == ACL_DEFAULT:
                if size != 48:
                    self.fatal('size/acl', path, epos, 'ACL_DEFAULT size != 48')
            pos += size

        if ft == S_IFREG:
            epos = pos
            typ, size, body = self.element(pos, path)
            if typ != PAYLOAD:
                self.fatal('order/payload-expected', path, epos, 'regular file entry followed by element type %x' % typ)
            nd['size'] = size - 16
            if self.content_hash:
                nd['sha256'] = hashlib.sha256(body).hexdigest()
            pos += size
        elif ft == S_IFLNK:
            epos = pos
            typ, size, body = self.element(pos, path)
            if typ != SYMLINK:
                self.fatal('order/symlink-expected', path, epos, 'symlink entry followed by element type %x' % typ)
            t = self.cstring(body, 'symlink', path, epos)
            if len(t) == 0:
                self.err('symlink/empty', path, epos, 'empty symlink target')
            nd['target_hex'] = t.hex()
            pos += size
        elif ft in (S_IFBLK, S_IFCHR):
            epos = pos
            typ, size, body = self.element(pos, path)
            if typ != DEVICE:
                self.fatal('order/device-expected', path, epos, 'device entry followed by element type %x' % typ)
            if size != 32:
                self.fatal('size/device', path, epos, 'DEVICE size %d != 32' % size)
            nd['major'], nd['minor'] = struct.unpack('<QQ', body)
            pos += size
        elif ft in (S_IFIFO, S_IFSOCK):
            pass
        else:
            pos = self.directory(pos, path, entry_start, nd)
        return pos

    # -- children and GOODBYE of a directory whose ENTRY started at entry_start --
    def directory(self, pos, path, entry_start, nd):
        children = []      # (name, filename_start, end)
        last_name = None
        while True:
            epos = pos
            typ, size, body = self.element(pos, path)
            if typ == GOODBYE:
                break
            if typ != FILENAME:
                self.fatal('order/filename-or-goodbye-expected', path, epos,
                           'in directory: element type %x where FILENAME or GOODBYE is expected' % typ)
            name = self.cstring(body, 'filename', path, epos)
            if len(name) == 0 or b'/' in name or name in (b'.', b'..'):
                self.err('filename/invalid', path, epos, 'invalid file name %r' % name)
            elif len(name) > 255 and not self.long_names_ok:
                self.err('filename/too-long', path, epos, 'file name of %d bytes (NAME_MAX is 255)' % len(name))
            if last_name is not None and not (last_name < name):
                cls = 'order/filenames-duplicate' if last_name == name else 'order/filenames-unsorted'
                if not (self.unsorted_ok and cls == 'order/filenames-unsorted'):
                    self.err(cls, path, epos, 'file name %r does not sort after %r' % (name, last_name))
            last_name = name
            pos += size
            end = self.node(pos, path + [name])
            children.append((name, epos, end))
            pos = end
        # R5
        gstart = pos
        nd['entries'] = len(children)
        if (size - 16) % 24 != 0:
            self.fatal('size/goodbye', path, gstart, 'GOODBYE size %d is not 16 + 24*k' % size)
        k = (size - 16) // 24
        if k < 1:
            self.fatal('goodbye/no-tail', path, gstart, 'GOODBYE without a tail item')
        items = [struct.unpack_from('<QQQ', body, 24 * i) for i in range(k)]
        toff, tsize, thash = items[-1]
        if thash != TAIL_MARKER:
            self.err('goodbye/tail-marker', path, gstart, 'last GOODBYE item is not the tail marker')
        if toff != gstart - entry_start:
            self.err('goodbye/tail-offset', path, gstart, 'tail offset %d, directory entry is %d bytes back' % (toff, gstart - entry_start))
        if tsize != size:
            self.err('goodbye/tail-size', path, gstart, 'tail size %d, GOODBYE element has %d bytes' % (tsize, size))
        items = items[:-1]
        n = len(items)
        if n != len(children):
            self.err('goodbye/item-count', path, gstart, '%d items for %d children' % (n, len(children)))
        else:
            want = {}
            hcount = {}
            for name, fstart, end in children:
                h = siphash24(HASH_KEY, name)
                want[(gstart - fstart, end - fstart, h)] = name
                hcount[h] = hcount.get(h, 0) + 1
            # every item is some child's (offset, size, hash), each child once
            seen = set()
            for i, it in enumerate(items):
                if it not in want:
                    o, s, h = it
                    # say which field is off, relative to the child with that offset if any
                    cand = [w for w in want if w[0] == o]
                    if cand:
                        w = cand[0]
                        if w[2] != h:
                            self.err('goodbye/item-hash', path, gstart, 'slot %d: hash %x, SipHash-2-4 of %r is %x' % (i, h, want[w], w[2]))
                        if w[1] != s:
                            self.err('goodbye/item-size', path, gstart, 'slot %d: size %d, child %r spans %d bytes' % (i, s, want[w], w[1]))
                    else:
                        self.err('goodbye/item-offset', path, gstart, 'slot %d: offset %d points at no child FILENAME element' % (i, o))
                elif it in seen:
                    self.err('goodbye/item-duplicate', path, gstart, 'slot %d repeats an item' % i)
                seen.add(it)
            # in-order traversal of the implicit tree ascends in hash (BST), iteratively
            order = []
            stack, i = [], 0
            while stack or i < n:
                while i < n:
                    stack.append(i); i = 2 * i + 1
                i = stack.pop()
                order.append(i)
                i = 2 * i + 2
            if len(order) != n:
                self.err('goodbye/bst-shape', path, gstart, 'implicit tree does not cover all slots')
            for a, c in zip(order, order[1:]):
                if items[a][2] > items[c][2]:
                    self.err('goodbye/bst-order', path, gstart, 'in-order traversal not ascending at slots %d,%d' % (a, c))
                    break
            # casync's lookup for every child
            for name, fstart, end in children:
                h = siphash24(HASH_KEY, name)
                i = 0
                found = None
                while i < n:
                    ih = items[i][2]
                    if h == ih:
                        found = i
                        break
                    i = 2 * i + 1 if h < ih else 2 * i + 2
                if found is None:
                    self.err('goodbye/lookup', path, gstart, 'descent does not find %r (hash %x)' % (name, h))
                elif hcount[h] == 1 and items[found] != (gstart - fstart, end - fstart, h):
                    self.err('goodbye/lookup', path, gstart, 'descent for %r ends at an item of another child' % name)
        return gstart + size

    def run(self):
        ok_struct = True
        try:
            end = self.node(0, [])
            if end != len(self.b):
                self.err('structure/trailing-data', [], end, '%d bytes after the end of the root node' % (len(self.b) - end))
        except Fatal:
            ok_struct = False
        return ok_struct and not self.errors


def pathstr(path):
    return '/'.join(p.decode('utf-8', 'backslashreplace') for p in path) if path else '.'


def pathhex(path):
    return '/'.join(p.hex() for p in path)


def main(argv):
    args = [a for a in argv[1:] if not a.startswith('--')]
    if len(args) != 1:
        sys.stderr.write(__doc__)
        return 2
    siphash_selftest()
    if '--siphash' in argv:      # catar.py --siphash HEXNAME : print the goodbye hash (used by the harness self-check)
        print('%016x' % siphash24(HASH_KEY, bytes.fromhex(args[0]) if args[0] != '-' else b''))
        return 0
    try:
        buf = open(args[0], 'rb').read()
    except OSError as e:
        sys.stderr.write('catar.py: %s\n' % e)
        return 2
    sys.setrecursionlimit(10000)
    v = Validator(buf, unsorted_ok='--unsorted-ok' in argv, content_hash='--no-content-hash' not in argv,
                  long_names_ok='--long-names-ok' in argv)
    ok = v.run()
    json.dump({'ok': ok, 'errors': v.errors, 'feature_flags': v.feature_flags, 'nodes': v.nodes}, sys.stdout)
    sys.stdout.write('\n')
    return 0 if ok else 1


if __name__ == '__main__':
    sys.exit(main(sys.argv))
