# sourced by every script: offline Go environment
export GOFLAGS=-mod=mod GOPROXY=off GOSUMDB=off GOTOOLCHAIN=local CGO_ENABLED=0
export VERIF=${VERIF:-$(cd "$(dirname "${BASH_SOURCE[0]}")/.." && pwd)} REPO=${REPO:-/repo}
export GOCACHE=${GOCACHE:-/root/.cache/go-build}
