# sourced by every script: offline Go environment
export GOFLAGS=-mod=mod GOPROXY=off GOSUMDB=off GOTOOLCHAIN=local CGO_ENABLED=0
export VERIF=/verif REPO=${REPO:-/repo}
export GOCACHE=${GOCACHE:-/root/.cache/go-build}
